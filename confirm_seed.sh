#!/bin/bash
# confirm_seed.sh <worktree> <seed dir>  : in the scratch worktree confirm that the change compiles, passes the
# existing suite, fails its demonstration, and that the demonstration passes without the change.
set -u
wt="$1"; sd="$(readlink -f "$2")"
export GOFLAGS=-mod=mod GOPROXY=off GOSUMDB=off GOTOOLCHAIN=local
cd "$wt" || exit 2
git checkout -q -- . ; git clean -fdq -e SEEDED
git apply "$sd/patch.diff" || { echo "APPLY FAILED"; exit 2; }
go build ./... > /tmp/confirm.build.log 2>&1 && echo "build: ok" || { echo "build: FAIL"; git checkout -q -- .; exit 1; }
go test -vet=off -count=1 ./... > /tmp/confirm.test.log 2>&1 && echo "suite: pass" || echo "suite: FAIL"
timeout 300 bash "$sd/demo.sh" > /tmp/confirm.demo1.log 2>&1; echo "demo with change: rc=$?"
git checkout -q -- . ; git clean -fdq -e SEEDED
timeout 300 bash "$sd/demo.sh" > /tmp/confirm.demo0.log 2>&1; echo "demo without change: rc=$?"
