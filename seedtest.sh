#!/bin/bash
# seedtest.sh <patch.diff> <property>...   apply a seeded change to /repo, run the baseline suite and the
# quick checks of the named properties, undo the change. Prints one summary line per step.
# Environment: SEED_BUDGET_S (default: the tier's own budget), SEED_TIER (default quick)
set -u
patch="$(readlink -f "$1")"; shift
export GOFLAGS=-mod=mod GOPROXY=off GOSUMDB=off GOTOOLCHAIN=local
if [ -n "$(git -C /repo status --porcelain)" ]; then echo "REPO NOT CLEAN"; exit 2; fi
logdir=/tmp/seedlogs; mkdir -p $logdir
name="$(basename "$(dirname "$patch")")"
rm -rf /tmp/evidence.keep; cp -r /verif/evidence /tmp/evidence.keep
trap 'git -C /repo checkout -- . ; git -C /repo clean -fdq; rm -rf /verif/evidence; mv /tmp/evidence.keep /verif/evidence' EXIT
git -C /repo apply "$patch" || { echo "PATCH DOES NOT APPLY"; exit 2; }
( cd /repo && go build ./... ) > $logdir/$name.build.log 2>&1 || { echo "BUILD FAILS"; exit 2; }
if ( cd /repo && go test -vet=off -count=1 ./... ) > $logdir/$name.test.log 2>&1; then echo "baseline-suite: pass"; else echo "baseline-suite: FAIL"; fi
for p in "$@"; do
  if [ -n "${SEED_BUDGET_S:-}" ]; then export VERIF_BUDGET_S="$SEED_BUDGET_S"; fi
  /verif/check "$p" "${SEED_TIER:-quick}" > $logdir/$name.$p.log 2>&1
  rc=$?
  echo "check $p: exit=$rc $(grep -c '^VIOLATION' $logdir/$name.$p.log) violation line(s)"
  grep -A1 '^VIOLATION' $logdir/$name.$p.log | grep -v '^VIOLATION\|^--' | cut -c1-260
done
