// yqsim: driver of the deterministic fault simulation of yq.
package main

import (
	"fmt"
	"os"
	"os/exec"
	"path/filepath"
	"runtime"
	"strconv"
	"time"

	"verifsim/internal/sim"
)

func usage() {
	fmt.Fprintln(os.Stderr, "usage: yqsim check <property> <quick|thorough> | replay <file> | selftest <quick|thorough>")
	os.Exit(2)
}

func envInt(name string, def int) int {
	if v := os.Getenv(name); v != "" {
		if n, err := strconv.Atoi(v); err == nil {
			return n
		}
	}
	return def
}

func world(verifDir string) *sim.World {
	build := filepath.Join(verifDir, ".build")
	w := &sim.World{
		YQ:      filepath.Join(build, "yq-verif"),
		LibSim:  filepath.Join(build, "libsim"),
		LibRace: filepath.Join(build, "libsim-race"),
		ShmRoot: fmt.Sprintf("/dev/shm/yqsim.%d", os.Getpid()),
	}
	if err := os.MkdirAll(w.ShmRoot, 0755); err != nil {
		fmt.Println("HARNESS: no /dev/shm:", err)
		os.Exit(2)
	}
	disk := filepath.Join(verifDir, ".scratch", fmt.Sprintf("yqsim.%d", os.Getpid()))
	if err := os.MkdirAll(disk, 0755); err == nil && differentFS(w.ShmRoot, disk) {
		w.DiskRoot = disk
	} else {
		_ = os.RemoveAll(disk)
	}
	if p, err := exec.LookPath("strace"); err == nil {
		w.Strace = p
	}
	return w
}

func differentFS(a, b string) bool {
	sa, err1 := os.Stat(a)
	sb, err2 := os.Stat(b)
	if err1 != nil || err2 != nil {
		return false
	}
	return sim.DeviceOf(sa) != sim.DeviceOf(sb)
}

func cleanup(w *sim.World) {
	_ = os.RemoveAll(w.ShmRoot)
	if w.DiskRoot != "" {
		_ = os.RemoveAll(w.DiskRoot)
	}
}

func main() {
	if len(os.Args) < 2 {
		usage()
	}
	verifDir := os.Getenv("VERIF_DIR")
	if verifDir == "" {
		verifDir = "/verif"
	}
	w := world(verifDir)
	code := 2
	func() {
		defer cleanup(w)
		defer func() {
			if r := recover(); r != nil {
				if he, ok := r.(*sim.HarnessError); ok {
					fmt.Println("HARNESS:", he.Msg)
					code = 2
					return
				}
				panic(r)
			}
		}()
		switch os.Args[1] {
		case "check":
			if len(os.Args) < 4 {
				usage()
			}
			chk := sim.CheckByID(os.Args[2])
			if chk == nil {
				fmt.Println("HARNESS: unknown property", os.Args[2])
				return
			}
			tier := os.Args[3]
			cfg := sim.BatchConfig{
				Seed:     uint64(envInt("VERIF_SEED", 20261004)),
				Tier:     tier,
				Workers:  envInt("VERIF_WORKERS", runtime.NumCPU()),
				VerifDir: verifDir,
			}
			switch tier {
			case "quick":
				quickS := 60
				if os.Args[2] == "C18" {
					quickS = 90 // a history step costs a process of its own for the reference, and there are a dozen job themes
				}
				cfg.Budget = time.Duration(envInt("VERIF_BUDGET_S", quickS)) * time.Second
				cfg.MinRuns = 200
				cfg.ShrinkFor = 60 * time.Second
			case "thorough":
				cfg.Budget = time.Duration(envInt("VERIF_BUDGET_S", 1200)) * time.Second
				cfg.MinRuns = 2000
				cfg.ShrinkFor = 180 * time.Second
			default:
				usage()
			}
			cfg.MaxRuns = envInt("VERIF_MAX_RUNS", 0)
			cfg.MaxFound = envInt("VERIF_MAX_FOUND", 12)
			if s := envInt("VERIF_SHRINK_S", -1); s >= 0 {
				cfg.ShrinkFor = time.Duration(s) * time.Second
			}
			code = sim.RunBatch(w, chk, cfg)
		case "gen":
			// yqsim gen <property> <seed> <index>: print the scenario a batch would generate
			chk := sim.CheckByID(os.Args[2])
			seed, _ := strconv.ParseUint(os.Args[3], 10, 64)
			idx, _ := strconv.Atoi(os.Args[4])
			fmt.Println(string(sim.GenerateOne(w, chk, seed, idx).JSON()))
			code = 0
		case "replay":
			if len(os.Args) < 3 {
				usage()
			}
			code = sim.Replay(w, verifDir, os.Args[2])
		case "selftest":
			tier := "quick"
			if len(os.Args) > 2 {
				tier = os.Args[2]
			}
			code = sim.SelfTest(w, verifDir, tier, uint64(envInt("VERIF_SEED", 20261004)))
		default:
			usage()
		}
	}()
	os.Exit(code)
}
