//go:build verif

// libsim: in-process deterministic scheduler over yqlib.
//
//	libsim solo <scenario.json> <job index>   one evaluation alone in this fresh process
//	libsim history <scenario.json>            a history of evaluations sharing library objects
//	libsim interleave <scenario.json>         concurrent evaluations, one runnable goroutine at a time,
//	                                          the scenario's choice list decides every hand-off
//	libsim race <scenario.json>               the same tasks running free (meant for the -race build)
//
// Output: one JSON document on stdout.
package main

import (
	"bufio"
	"bytes"
	"encoding/json"
	"fmt"
	"io"
	"os"
	"runtime"
	"sort"
	"strconv"
	"strings"
	"sync"
	"sync/atomic"
	"time"

	"github.com/mikefarah/yq/v4/pkg/verifhook"
	"github.com/mikefarah/yq/v4/pkg/yqlib"
	logging "gopkg.in/op/go-logging.v1"

	"verifsim/internal/sim"
)

type jobResult struct {
	Job int    `json:"job"`
	Out string `json:"out"`
	Err string `json:"err,omitempty"`
}

type output struct {
	Results     []jobResult `json:"results"`
	Yields      int64       `json:"yields"`
	Switches    int         `json:"switches"`
	ScheduleSig string      `json:"schedule_sig,omitempty"`
	Sites       []string    `json:"sites,omitempty"`
	Trace       []string    `json:"trace,omitempty"`
}

func fail(format string, a ...any) {
	fmt.Fprintf(os.Stderr, "libsim: "+format+"\n", a...)
	os.Exit(3)
}

func decoderFor(format string) yqlib.Decoder {
	if name, ok := strings.CutSuffix(format, "-reg"); ok {
		// as the command line gets it: from the format registry and the configured preferences
		f, err := yqlib.FormatFromString(name)
		if err != nil || f.DecoderFactory == nil {
			fail("no registered decoder for %q", name)
		}
		return f.DecoderFactory()
	}
	switch format {
	case "yaml":
		p := yqlib.NewDefaultYamlPreferences()
		return yqlib.NewYamlDecoder(p)
	case "yaml-nopre":
		p := yqlib.NewDefaultYamlPreferences()
		p.LeadingContentPreProcessing = false
		return yqlib.NewYamlDecoder(p)
	case "goccy":
		return yqlib.NewGoccyYAMLDecoder()
	case "csv-auto":
		p := yqlib.ConfiguredCsvPreferences
		p.AutoParse = true
		return yqlib.NewCSVObjectDecoder(p)
	case "json":
		return yqlib.NewJSONDecoder()
	case "props":
		return yqlib.NewPropertiesDecoder()
	case "csv":
		return yqlib.NewCSVObjectDecoder(yqlib.ConfiguredCsvPreferences)
	case "tsv":
		return yqlib.NewCSVObjectDecoder(yqlib.ConfiguredTsvPreferences)
	case "xml":
		return yqlib.NewXMLDecoder(yqlib.ConfiguredXMLPreferences)
	case "toml":
		return yqlib.NewTomlDecoder()
	case "lua":
		return yqlib.NewLuaDecoder(yqlib.ConfiguredLuaPreferences)
	case "base64":
		return yqlib.NewBase64Decoder()
	case "uri":
		return yqlib.NewUriDecoder()
	}
	fail("unknown input format %q", format)
	return nil
}

func encoderFor(format string) yqlib.Encoder {
	switch format {
	case "yaml":
		p := yqlib.NewDefaultYamlPreferences()
		p.UnwrapScalar = true
		return yqlib.NewYamlEncoder(p)
	case "json":
		p := yqlib.ConfiguredJSONPreferences.Copy()
		p.Indent = 2
		p.ColorsEnabled = false
		return yqlib.NewJSONEncoder(p)
	case "json0":
		p := yqlib.ConfiguredJSONPreferences.Copy()
		p.Indent = 0
		p.ColorsEnabled = false
		return yqlib.NewJSONEncoder(p)
	case "props":
		return yqlib.NewPropertiesEncoder(yqlib.ConfiguredPropertiesPreferences)
	case "csv":
		return yqlib.NewCsvEncoder(yqlib.ConfiguredCsvPreferences)
	case "tsv":
		return yqlib.NewCsvEncoder(yqlib.ConfiguredTsvPreferences)
	case "xml":
		return yqlib.NewXMLEncoder(yqlib.ConfiguredXMLPreferences)
	case "lua":
		return yqlib.NewLuaEncoder(yqlib.ConfiguredLuaPreferences)
	case "shell":
		return yqlib.NewShellVariablesEncoder()
	// encoders with preferences of their own: what one of them was given must not reach another
	case "lua-prefix":
		p := yqlib.NewDefaultLuaPreferences()
		p.DocPrefix, p.DocSuffix = "config = ", ";\n-- end\n"
		return yqlib.NewLuaEncoder(p)
	case "lua-globals":
		p := yqlib.NewDefaultLuaPreferences()
		p.Globals = true
		return yqlib.NewLuaEncoder(p)
	case "lua-unquoted":
		p := yqlib.NewDefaultLuaPreferences()
		p.UnquotedKeys = true
		return yqlib.NewLuaEncoder(p)
	case "yaml-wrap":
		p := yqlib.NewDefaultYamlPreferences()
		p.UnwrapScalar = false
		p.Indent = 4
		return yqlib.NewYamlEncoder(p)
	case "json-wrap":
		p := yqlib.ConfiguredJSONPreferences.Copy()
		p.Indent = 1
		p.ColorsEnabled = false
		p.UnwrapScalar = false
		return yqlib.NewJSONEncoder(p)
	case "props-sep":
		p := yqlib.NewDefaultPropertiesPreferences()
		p.KeyValueSeparator = ": "
		p.UseArrayBrackets = true
		return yqlib.NewPropertiesEncoder(p)
	case "csv-semi":
		p := yqlib.NewDefaultCsvPreferences()
		p.Separator = ';'
		return yqlib.NewCsvEncoder(p)
	case "xml-attr":
		p := yqlib.NewDefaultXmlPreferences()
		p.AttributePrefix = "_"
		p.Indent = 4
		return yqlib.NewXMLEncoder(p)
	// encoders as the command line gets them: from the format registry and the configured preferences
	case "yaml-reg":
		return yqlib.YamlFormat.EncoderFactory()
	case "json-reg":
		return yqlib.JSONFormat.EncoderFactory()
	case "props-reg":
		return yqlib.PropertiesFormat.EncoderFactory()
	case "xml-reg":
		return yqlib.XMLFormat.EncoderFactory()
	case "lua-reg":
		return yqlib.LuaFormat.EncoderFactory()
	case "csv-reg":
		return yqlib.CSVFormat.EncoderFactory()
	case "toml-reg":
		return yqlib.TomlFormat.EncoderFactory()
	case "shell-reg":
		return yqlib.ShellVariablesFormat.EncoderFactory()
	}
	fail("unknown output format %q", format)
	return nil
}

// shared library objects of a history
type shared struct {
	trees    map[string]*yqlib.ExpressionNode
	decoders map[string]yqlib.Decoder
	encoders map[string]yqlib.Encoder
	// string evaluators are objects meant to be kept and called again
	stringEvals map[int]yqlib.StringEvaluator
	printers    map[string]*pooledPrinter
}

// pooledPrinter: a printer kept across evaluations. The buffered writer is the caller's and is new for
// every evaluation (what a failed evaluation left unflushed is dropped, as with a printer of its own).
type pooledPrinter struct {
	p  yqlib.Printer
	pw *poolWriter
}

type poolWriter struct{ bw *bufio.Writer }

func (w *poolWriter) GetWriter(_ *yqlib.CandidateNode) (*bufio.Writer, error) { return w.bw, nil }

func newShared() *shared {
	return &shared{trees: map[string]*yqlib.ExpressionNode{}, decoders: map[string]yqlib.Decoder{}, encoders: map[string]yqlib.Encoder{}, stringEvals: map[int]yqlib.StringEvaluator{}, printers: map[string]*pooledPrinter{}}
}

// taskReader delivers the job's input in the job's chunk schedule and yields
// to the scheduler on every Read.
type taskReader struct {
	data  []byte
	off   int
	calls int
	job   *sim.LibJob
}

func (r *taskReader) Read(p []byte) (int, error) {
	verifhook.Yield("io.read")
	if r.job.ErrAt >= 0 && int64(r.off) >= r.job.ErrAt {
		return 0, fmt.Errorf("read input: input/output error")
	}
	if r.off >= len(r.data) {
		return 0, io.EOF
	}
	n := len(p)
	if len(r.job.Chunks) > 0 {
		if k := r.job.Chunks[r.calls%len(r.job.Chunks)]; k > 0 && k < n {
			n = k
		}
	}
	r.calls++
	if n > len(r.data)-r.off {
		n = len(r.data) - r.off
	}
	if r.job.ErrAt >= 0 && int64(r.off+n) > r.job.ErrAt {
		n = int(r.job.ErrAt) - r.off
	}
	copy(p, r.data[r.off:r.off+n])
	r.off += n
	return n, nil
}

type taskWriter struct{ buf bytes.Buffer }

func (w *taskWriter) Write(p []byte) (int, error) {
	verifhook.Yield("io.write")
	return w.buf.Write(p)
}

// runJob performs one evaluation. sh == nil: every object is private.
func runJob(job *sim.LibJob, sh *shared) (out string, errText string) {
	defer func() {
		if r := recover(); r != nil {
			buf := make([]byte, 4096)
			n := runtime.Stack(buf, false)
			errText = fmt.Sprintf("PANIC: %v\n%s", r, firstFrames(string(buf[:n])))
		}
	}()
	if job.LazyInit {
		_ = yqlib.NewAllAtOnceEvaluator()
	}
	var dec yqlib.Decoder
	var enc yqlib.Encoder
	if sh != nil {
		dk := job.InFmt + "#" + strconv.Itoa(job.DecSlot)
		if sh.decoders[dk] == nil {
			sh.decoders[dk] = decoderFor(job.InFmt)
		}
		dec = sh.decoders[dk]
		ek := job.OutFmt + "#" + strconv.Itoa(job.EncSlot)
		if sh.encoders[ek] == nil {
			sh.encoders[ek] = encoderFor(job.OutFmt)
		}
		enc = sh.encoders[ek]
	} else {
		dec = decoderFor(job.InFmt)
		enc = encoderFor(job.OutFmt)
	}
	stringEvaluator := func() yqlib.StringEvaluator {
		if sh == nil {
			return yqlib.NewStringEvaluator()
		}
		if sh.stringEvals[job.EncSlot] == nil {
			sh.stringEvals[job.EncSlot] = yqlib.NewStringEvaluator()
		}
		return sh.stringEvals[job.EncSlot]
	}
	parse := func() (*yqlib.ExpressionNode, error) {
		if sh != nil {
			if t, ok := sh.trees[job.Expr]; ok {
				return t, nil
			}
		}
		t, err := yqlib.ExpressionParser.ParseExpression(job.Expr)
		if err == nil && sh != nil {
			sh.trees[job.Expr] = t
		}
		return t, err
	}
	reader := &taskReader{data: job.Input, job: job}
	writer := &taskWriter{}
	newPrinter := func() yqlib.Printer {
		if sh != nil && job.SharePrinter {
			key := job.OutFmt + "#" + strconv.Itoa(job.EncSlot) + "#" + strconv.FormatBool(job.NulSep)
			e := sh.printers[key]
			if e == nil {
				e = &pooledPrinter{pw: &poolWriter{}}
				e.p = yqlib.NewPrinter(enc, e.pw)
				if job.NulSep {
					e.p.SetNulSepOutput(true)
				}
				sh.printers[key] = e
			}
			e.pw.bw = bufio.NewWriter(writer)
			return e.p
		}
		p := yqlib.NewPrinter(enc, yqlib.NewSinglePrinterWriter(writer))
		if job.NulSep {
			p.SetNulSepOutput(true)
		}
		return p
	}
	switch job.API {
	case "parse":
		_, err := yqlib.ExpressionParser.ParseExpression(job.Expr)
		if err != nil {
			return "", err.Error()
		}
		return "parsed", ""
	case "stream":
		node, err := parse()
		if err != nil {
			return "", err.Error()
		}
		printer := newPrinter()
		ev := yqlib.NewStreamEvaluator()
		if _, err := ev.Evaluate("input", reader, node, printer, dec); err != nil {
			return writer.buf.String(), err.Error()
		}
		return writer.buf.String(), ""
	case "all":
		docs, err := yqlib.ReadDocuments(reader, dec)
		if err != nil {
			return "", err.Error()
		}
		ev := yqlib.NewAllAtOnceEvaluator()
		results, err := ev.EvaluateCandidateNodes(job.Expr, docs)
		if err != nil {
			return "", err.Error()
		}
		printer := newPrinter()
		if err := printer.PrintResults(results); err != nil {
			return writer.buf.String(), err.Error()
		}
		return writer.buf.String(), ""
	case "new":
		// no input at all (yq -n)
		printer := yqlib.NewPrinter(enc, yqlib.NewSinglePrinterWriter(writer))
		if err := yqlib.NewStreamEvaluator().EvaluateNew(job.Expr, printer); err != nil {
			return writer.buf.String(), err.Error()
		}
		return writer.buf.String(), ""
	case "allnew":
		// eval-all over no files: one null document
		printer := yqlib.NewPrinter(enc, yqlib.NewSinglePrinterWriter(writer))
		if err := yqlib.NewAllAtOnceEvaluator().EvaluateFiles(job.Expr, []string{}, printer, dec); err != nil {
			return writer.buf.String(), err.Error()
		}
		return writer.buf.String(), ""
	case "string":
		s, err := stringEvaluator().Evaluate(job.Expr, string(job.Input), enc, dec)
		if err != nil {
			return s, err.Error()
		}
		return s, ""
	case "stringall":
		s, err := stringEvaluator().EvaluateAll(job.Expr, string(job.Input), enc, dec)
		if err != nil {
			return s, err.Error()
		}
		return s, ""
	}
	fail("unknown api %q", job.API)
	return "", ""
}

func firstFrames(stack string) string {
	lines := strings.Split(stack, "\n")
	var keep []string
	for _, l := range lines {
		if strings.Contains(l, "yqlib.") && !strings.HasPrefix(l, "\t") {
			if i := strings.LastIndex(l, "("); i > 0 {
				l = l[:i]
			}
			keep = append(keep, l)
			if len(keep) == 3 {
				break
			}
		}
	}
	return strings.Join(keep, " < ")
}

func writeJobFiles(jobs []sim.LibJob) {
	for _, j := range jobs {
		for _, f := range j.Files {
			if err := os.WriteFile(f.Name, f.Bytes(), 0644); err != nil {
				fail("write %s: %v", f.Name, err)
			}
		}
	}
}

// --- the scheduler -------------------------------------------------------------

type task struct {
	id     int
	job    *sim.LibJob
	resume chan struct{}
	done   bool
	out    string
	err    string
}

type yieldMsg struct {
	t    *task
	site string
	done bool
}

type scheduler struct {
	mu      sync.Mutex
	byGoid  map[int64]*task
	ch      chan yieldMsg
	yields  int64
	choices []int
	preempt map[int64]bool
	usePre  bool
	pos     int
	trace   []string
	sites   map[string]int
}

func goid() int64 {
	var buf [64]byte
	n := runtime.Stack(buf[:], false)
	// "goroutine 123 [running]:"
	s := string(buf[:n])
	s = strings.TrimPrefix(s, "goroutine ")
	if i := strings.IndexByte(s, ' '); i > 0 {
		id, _ := strconv.ParseInt(s[:i], 10, 64)
		return id
	}
	return -1
}

// controller methods (verifhook.Controller)
func (s *scheduler) Step(string, []string) error               { return nil }
func (s *scheduler) StepFile(string, *os.File)                 {}
func (s *scheduler) Reader(_, _ string, _ io.Reader) io.Reader { return nil }
func (s *scheduler) Writer(_ string, w io.Writer) io.Writer    { return w }
func (s *scheduler) Yield(site string) {
	id := goid()
	s.mu.Lock()
	t := s.byGoid[id]
	s.mu.Unlock()
	if t == nil {
		return // not a task (main goroutine)
	}
	s.ch <- yieldMsg{t: t, site: site}
	<-t.resume
}

func (s *scheduler) run(tasks []*task) {
	for _, t := range tasks {
		t := t
		started := make(chan struct{})
		go func() {
			s.mu.Lock()
			s.byGoid[goid()] = t
			s.mu.Unlock()
			close(started)
			<-t.resume
			t.out, t.err = runJob(t.job, nil)
			s.ch <- yieldMsg{t: t, done: true}
		}()
		<-started
	}
	current := -1
	for {
		var runnable []*task
		for _, t := range tasks {
			if !t.done {
				runnable = append(runnable, t)
			}
		}
		if len(runnable) == 0 {
			return
		}
		var next *task
		if s.usePre {
			// run-to-completion with pre-emption at chosen global yield counts
			var cur *task
			for _, t := range runnable {
				if t.id == current {
					cur = t
				}
			}
			if cur != nil && !s.preempt[s.yields] {
				next = cur
			} else {
				// round robin to the next runnable task after the current one
				next = runnable[0]
				for _, t := range runnable {
					if t.id > current {
						next = t
						break
					}
				}
			}
		} else {
			k := 0
			if s.pos < len(s.choices) {
				k = s.choices[s.pos]
				s.pos++
			}
			if k < 0 {
				k = -k
			}
			next = runnable[k%len(runnable)]
		}
		if next.id != current {
			s.trace = append(s.trace, "")
		}
		current = next.id
		next.resume <- struct{}{}
		msg := <-s.ch
		if msg.t != next {
			fail("scheduler invariant broken: task %d ran while %d was scheduled", msg.t.id, next.id)
		}
		if msg.done {
			next.done = true
			s.trace[len(s.trace)-1] += fmt.Sprintf("%d:END ", next.id)
		} else {
			s.yields++
			s.sites[msg.site]++
			s.trace[len(s.trace)-1] += fmt.Sprintf("%d:%s ", next.id, msg.site)
		}
	}
}

func main() {
	if len(os.Args) < 3 {
		fail("usage")
	}
	mode := os.Args[1]
	sc, err := sim.LoadScenario(os.Args[2])
	if err != nil || sc.Lib == nil {
		fail("cannot load scenario: %v", err)
	}
	// yq's logger writes to stderr; keep it quiet and deterministic
	logging.SetBackend(logging.AddModuleLevel(logging.NewLogBackend(io.Discard, "", 0)))
	yqlib.Now = func() time.Time { return time.Date(2021, time.May, 19, 1, 2, 3, 4, time.UTC) }
	lib := sc.Lib
	writeJobFiles(lib.Jobs)
	var res output
	switch mode {
	case "solo":
		idx, _ := strconv.Atoi(os.Args[3])
		yqlib.InitExpressionParser()
		o, e := runJob(&lib.Jobs[idx], nil)
		res.Results = []jobResult{{Job: idx, Out: o, Err: e}}
	case "history":
		yqlib.InitExpressionParser()
		sh := newShared()
		for _, idx := range lib.History {
			o, e := runJob(&lib.Jobs[idx], sh)
			res.Results = append(res.Results, jobResult{Job: idx, Out: o, Err: e})
		}
	case "interleave":
		if !lib.LazyInit {
			yqlib.InitExpressionParser()
		}
		s := &scheduler{byGoid: map[int64]*task{}, ch: make(chan yieldMsg), choices: lib.Choices, sites: map[string]int{}, preempt: map[int64]bool{}}
		if len(lib.Choices) == 0 && len(lib.Preempt) > 0 {
			s.usePre = true
			for _, p := range lib.Preempt {
				s.preempt[int64(p)] = true
			}
		}
		var tasks []*task
		for i, idx := range lib.Tasks {
			tasks = append(tasks, &task{id: i, job: &lib.Jobs[idx], resume: make(chan struct{})})
		}
		verifhook.SetController(s)
		if lib.LazyInit {
			// a library user's goroutines each construct their own evaluator first
			for _, t := range tasks {
				t.job.LazyInit = true
			}
		}
		s.run(tasks)
		verifhook.SetController(nil)
		for i, t := range tasks {
			res.Results = append(res.Results, jobResult{Job: lib.Tasks[i], Out: t.out, Err: t.err})
		}
		res.Yields = s.yields
		res.Switches = len(s.trace)
		res.ScheduleSig = sigOf(s.trace)
		for k, v := range s.sites {
			res.Sites = append(res.Sites, fmt.Sprintf("%s=%d", k, v))
		}
		sort.Strings(res.Sites)
		if os.Getenv("LIBSIM_TRACE") != "" {
			res.Trace = s.trace
		}
	case "race":
		if !lib.LazyInit {
			yqlib.InitExpressionParser()
		}
		// Free running (meant for the -race build): which goroutine runs when is left to the Go scheduler.
		// The race detector reports two accesses only if nothing orders them, and a library that
		// allocates and formats a lot orders most accesses of two short evaluations by accident
		// (sync.Pool hand-offs, for one). To give it a fair chance the task goroutines walk in step:
		// at every yield point they meet at a barrier, so the stretch of code between two yield points
		// is executed by all of them with nothing ordering one against the other - on a busy machine too.
		reps, copies, iters := envInt("LIBSIM_REPS", 3), envInt("LIBSIM_COPIES", 2), envInt("LIBSIM_ITERS", 3)
		for rep := 0; rep < reps; rep++ {
			var wg sync.WaitGroup
			start := make(chan struct{})
			results := make([]jobResult, len(lib.Tasks))
			bar := &stepBarrier{active: int64(len(lib.Tasks) * copies)}
			verifhook.SetController(bar)
			for i, idx := range lib.Tasks {
				for c := 0; c < copies; c++ {
					wg.Add(1)
					go func(i, idx, c int) {
						defer wg.Done()
						defer bar.leave()
						<-start
						if lib.LazyInit {
							_ = yqlib.NewAllAtOnceEvaluator()
						}
						for it := 0; it < iters; it++ {
							o, e := runJob(&lib.Jobs[idx], nil)
							if c == 0 && it == 0 {
								results[i] = jobResult{Job: idx, Out: o, Err: e}
							}
						}
					}(i, idx, c)
				}
			}
			close(start)
			wg.Wait()
			verifhook.SetController(nil)
			if rep == 0 {
				res.Results = results
			}
		}
	default:
		fail("unknown mode %q", mode)
	}
	data, _ := json.Marshal(&res)
	os.Stdout.Write(data)
}

func sigOf(trace []string) string {
	h := uint64(1469598103934665603)
	for _, s := range trace {
		for i := 0; i < len(s); i++ {
			h ^= uint64(s[i])
			h *= 1099511628211
		}
		h ^= 0xff
		h *= 1099511628211
	}
	return strconv.FormatUint(h, 16)
}

func envInt(name string, def int) int {
	if v, err := strconv.Atoi(os.Getenv(name)); err == nil && v > 0 {
		return v
	}
	return def
}

// stepBarrier makes the free-running task goroutines meet at every yield point. A goroutine
// that waits longer than a few milliseconds goes on alone (nothing may hang because of it).
type stepBarrier struct {
	active   int64
	arrived  int64
	gen      int64
	timeouts int64
}

func (b *stepBarrier) await() {
	gen := atomic.LoadInt64(&b.gen)
	if atomic.AddInt64(&b.arrived, 1) >= atomic.LoadInt64(&b.active) {
		atomic.StoreInt64(&b.arrived, 0)
		atomic.AddInt64(&b.gen, 1)
		return
	}
	if atomic.LoadInt64(&b.timeouts) >= 3 {
		return // something keeps a goroutine away from the yield points: stop insisting
	}
	deadline := time.Now().Add(250 * time.Millisecond)
	for spins := 0; atomic.LoadInt64(&b.gen) == gen; spins++ {
		if spins&1023 == 1023 && time.Now().After(deadline) {
			atomic.AddInt64(&b.timeouts, 1)
			return
		}
		runtime.Gosched()
	}
}

func (b *stepBarrier) leave() {
	if atomic.AddInt64(&b.active, -1) <= atomic.LoadInt64(&b.arrived) {
		atomic.StoreInt64(&b.arrived, 0)
		atomic.AddInt64(&b.gen, 1)
	}
}

func (b *stepBarrier) Step(string, []string) error               { return nil }
func (b *stepBarrier) StepFile(string, *os.File)                 {}
func (b *stepBarrier) Reader(_, _ string, _ io.Reader) io.Reader { return nil }
func (b *stepBarrier) Writer(_ string, w io.Writer) io.Writer    { return w }
func (b *stepBarrier) Yield(site string) {
	if site == "io.read" || site == "io.write" {
		return
	}
	b.await()
}
