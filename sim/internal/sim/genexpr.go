package sim

import (
	"fmt"
	"regexp"
	"strconv"
	"strings"
)

// Expr is a generated expression with the static facts the oracles need.
// S may contain the placeholders @DI@ and @FI@: in a combined run they are
// the operators `di` / `fi`, in a per-document reference run they are the
// ground-truth literals.
type Expr struct {
	S          string
	Family     string
	Preserving bool     // every result is a node of the input document (possibly updated in place)
	Mutating   bool     // updates the document
	Total      bool     // every traversal hits an existing path of a "full" schema document
	Alts       []string // simpler expressions for the shrinker
}

func (e Expr) Combined() string {
	s := strings.ReplaceAll(e.S, "@DI@", "di")
	return strings.ReplaceAll(s, "@FI@", "fi")
}

func (e Expr) Solo(fileIndex, docIndex int) string {
	return SoloExpr(e.S, fileIndex, docIndex)
}

func SoloExpr(s string, fileIndex, docIndex int) string {
	s = strings.ReplaceAll(s, "@DI@", strconv.Itoa(docIndex))
	return strings.ReplaceAll(s, "@FI@", strconv.Itoa(fileIndex))
}

type exprT struct {
	s          string
	family     string
	preserving bool
	mutating   bool
}

func q(s string) string { return `"` + strings.NewReplacer(`\`, `\\`, `"`, `\"`).Replace(s) + `"` }

// ExprGen draws expressions over the DocGen schema. All of them are
// document-local: no load, env, now, line/column, random.
func GenExpr(r *Rand) Expr {
	n := strconv.Itoa(r.Range(0, 9))
	w := Pick(r, wordPool)
	path := Pick(r, []string{".a", ".b", ".c", ".c.x", ".c.y", ".d", ".e", ".id", ".f", ".g", ".h", ".c.z", ".d[0]", ".d[-1]", ".e[0]", ".e[0].k", ".missing", ".c.missing"})
	scalarPath := Pick(r, []string{".a", ".b", ".c.x", ".c.y", ".id", ".f", ".d[0]"})
	ts := []exprT{
		// --- reads that hand out nodes of the document
		{".", "identity", true, false},
		{".", "identity", true, false},
		{path, "path", true, false},
		{path, "path", true, false},
		{".d[]", "iterate", true, false},
		{".e[]", "iterate", true, false},
		{".[]", "iterate", true, false},
		{".e[].k", "iterate", true, false},
		{".c | .y", "path", true, false},
		{".a, .b", "union", true, false},
		{".id, .c.x", "union", true, false},
		{".c.x, .a, .d[0]", "union", true, false},
		{".. | select(tag == \"!!int\")", "recurse", true, false},
		{".. | select(kind == \"scalar\")", "recurse", true, false},
		{"select(.a > " + n + ")", "select", true, false},
		{"select(.a <= " + n + ")", "select", true, false},
		{"select(has(\"c\"))", "select", true, false},
		{"select(.f)", "select", true, false},
		{"select(.b == " + q(Pick(r, strPool)) + ")", "select", true, false},
		{"select(@DI@ == " + strconv.Itoa(r.Range(0, 2)) + ")", "select-index", true, false},
		{"select(@FI@ == " + strconv.Itoa(r.Range(0, 2)) + ")", "select-index", true, false},
		{"select(@DI@ > 0) | .id", "select-index", true, false},
		{".e[] | select(.v > " + n + ")", "select", true, false},
		{".e[] | select(.k == " + q(w) + ") | .v", "select", true, false},
		{".d[] | select(. > " + n + ")", "select", true, false},
		{"select(.a > " + n + " and .f)", "select", true, false},
		{"select(.a > " + n + " or .f | not)", "select", true, false},
		{".c // \"none\"", "alternative", false, false},
		{".missing // .a", "alternative", true, false},
		// --- updates (result: the updated document)
		{".a = " + n, "assign", true, true},
		{".b = " + q(Pick(r, strPool)), "assign", true, true},
		{".c.x = " + n, "assign", true, true},
		{".c.new = " + q(w), "assign", true, true},
		{".new.deep.er = " + n, "assign", true, true},
		{".a += 1", "assign", true, true},
		{".a |= . + " + n, "assign", true, true},
		{".a -= 1", "assign", true, true},
		{".b += \"!\"", "assign", true, true},
		{".d += [" + n + "]", "assign", true, true},
		{".d |= sort", "sort", true, true},
		{".d |= reverse", "assign", true, true},
		{".e |= sort_by(.k)", "sort", true, true},
		{".e |= sort_by(.v)", "sort", true, true},
		{".e |= sort_by(.k, .v)", "sort", true, true},
		{"del(.a)", "delete", true, true},
		{"del(.c.x)", "delete", true, true},
		{"del(.d[0])", "delete", true, true},
		{"del(.e[] | select(.v > " + n + "))", "delete", true, true},
		{"del(.. | select(tag == \"!!null\"))", "delete", true, true},
		{"with(.c; .x = " + n + " | .q = 2)", "with", true, true},
		{".x = @DI@", "assign-index", true, true},
		{".y = @FI@", "assign-index", true, true},
		{".z = filename", "assign-index", true, true},
		{".pos = ((@FI@ * 10) + @DI@)", "assign-index", true, true},
		{"sort_keys(.)", "sort", true, true},
		{"sort_keys(..)", "sort", true, true},
		{".d[0] = 5", "assign", true, true},
		{".a = .b", "assign", true, true},
		{".c.x = .a", "assign", true, true},
		{".c |= with_entries(.key |= \"k_\" + .)", "entries", true, true},
		{".e[] |= (.v += 1)", "assign", true, true},
		{".e[].k |= upcase", "assign", true, true},
		{"(.e[] | select(.v > " + n + ") | .k) = " + q(w), "assign", true, true},
		{"... comments=\"\"", "comments", true, true},
		{".a line_comment=\"note\"", "comments", true, true},
		{". head_comment=\"top\"", "comments", true, true},
		{".c style=\"flow\"", "style", true, true},
		{".. style=\"double\"", "style", true, true},
		{".b tag=\"!!str\"", "style", true, true},
		{".d[] |= . * 2", "assign", true, true},
		{". *= {\"merged\": " + n + "}", "merge", true, true},
		{".c *= {\"x\": " + n + ", \"w\": " + q(w) + "}", "merge", true, true},
		{".a = " + n + " | .b = " + q(w), "assign", true, true},
		// --- results built by the expression
		{"[.a]", "construct", false, false},
		{"[.d[] | . + 1]", "construct", false, false},
		{"{\"k\": .a}", "construct", false, false},
		{"{\"id\": .id, \"n\": (.d | length)}", "construct", false, false},
		{"keys", "construct", false, false},
		{"length", "construct", false, false},
		{".d | length", "construct", false, false},
		{".a + " + n, "construct", false, false},
		{".a * " + n, "construct", false, false},
		{".a % 3", "construct", false, false},
		{".d[] | split_doc | [., document_index]", "splitdoc", false, false},
		{".e[] | split_doc | .piece = document_index", "splitdoc", false, false},
		{".nl[]", "iterate", true, false},
		{".nl | .[1]", "path", true, false},
		{".. | select(tag == \"!!null\")", "recurse", true, false},
		{"., .b", "union", true, false},
		{"., .c", "union", true, false},
		{".. | select(kind == \"map\")", "recurse", true, false},
		{".e[].v = .a", "assign", true, true},
		{".d[] = .a", "assign", true, true},
		{".c[] = .id", "assign", true, true},
		{"(.a, .b) = .id", "assign", true, true},
		{".a % 0x0", "construct", false, false},
		{".d[0] % -0", "construct", false, false},
		{".a % (.a - .a)", "construct", false, false},
		{"(.a + 0.5) % 0", "construct", false, false},
		{".c anchor = \"n1\" | .b alias = \"n1\" | .g = .b.x", "anchors", false, true},
		{".c anchor = \"n1\" | .b alias = \"n1\" | [.b.y, .b.z]", "anchors", false, false},
		{".c anchor = \"n1\" | .b alias = \"n1\" | explode(.b)", "anchors", false, true},
		{".b alias = \"anc\" | .g = .b.x", "anchors", false, true},
		{".b + " + q(w), "construct", false, false},
		{"to_entries", "construct", false, false},
		{".c | to_entries", "construct", false, false},
		{q(w), "literal", false, false},
		{n, "literal", false, false},
		{".d | map(. * 2)", "construct", false, false},
		{".a as $x | $x + 1", "variable", false, false},
		{".d as $d | $d | length", "variable", false, false},
		{".a as $x | .d[] | . + $x", "variable", false, false},
		{".. | path", "construct", false, false},
		{"[.. | path]", "construct", false, false},
		{scalarPath + " | tag", "construct", false, false},
		{".c | kind", "construct", false, false},
		{".d | join(\",\")", "string", false, false},
		{".b | upcase", "string", false, false},
		{".b | length", "string", false, false},
		{".b | test(\"a\")", "string", false, false},
		{".b | sub(\"a\", \"o\")", "string", false, false},
		{".b | split(\" \")", "string", false, false},
		{".id | split(\"-\") | .[0]", "string", false, false},
		{"tojson", "encode", false, false},
		{"@json", "encode", false, false},
		{".c | to_yaml", "encode", false, false},
		{".c | @props", "encode", false, false},
		{".d | @csv", "encode", false, false},
		{".b | @base64", "encode", false, false},
		{".b | @base64 | @base64d", "encode", false, false},
		{".c | to_json | from_json", "encode", false, false},
		{"[.id, @DI@, @FI@, filename]", "provenance", false, false},
		{"{\"id\": .id, \"di\": @DI@, \"fi\": @FI@, \"fn\": filename}", "provenance", false, false},
		{".e | map(.k)", "construct", false, false},
		{".e | map(select(.v > " + n + "))", "construct", false, false},
		{".d | sort", "sort", false, false},
		{".d | reverse", "construct", false, false},
		{".e | sort_by(.v) | .[0]", "sort", false, false},
		{".e | sort_by(.k) | .[].v", "sort", false, false},
		{"[.e[] | .v] | sort | .[-1]", "sort", false, false},
		{".d | .[1:]", "construct", false, false},
		{".d | unique", "construct", false, false},
		{".e | group_by(.k)", "construct", false, false},
		{".e | unique_by(.k)", "construct", false, false},
		{".d | (min, max)", "construct", false, false},
		{".d | any", "construct", false, false},
		{".d | all_c(. > " + n + ")", "construct", false, false},
		{".c | has(\"x\")", "construct", false, false},
		{".c | keys | .[0]", "construct", false, false},
		{".c | pick([\"x\"])", "construct", false, false},
		{"pick([\"id\", \"a\"])", "construct", false, false},
		{"omit([\"d\", \"e\"])", "construct", false, false},
		{".d[] as $i ireduce (0; . + $i)", "reduce", false, false},
		{".e[] as $i ireduce ({}; .[$i.k] = $i.v)", "reduce", false, false},
		{".e | from_entries", "construct", false, false},
		{".c | to_entries | from_entries", "construct", false, false},
		{"[.. | select(tag == \"!!int\")] | length", "construct", false, false},
		{".d | flatten", "construct", false, false},
		{".e | pivot", "construct", false, false},
		{". * {\"extra\": " + n + "}", "merge", false, false},
		{".c * {\"x\": " + n + "}", "merge", false, false},
		{".a == " + n, "compare", false, false},
		{".a > " + n + " and .f", "compare", false, false},
		{".d | contains([" + n + "])", "compare", false, false},
		{".id | key", "construct", false, false},
		{".c.x | parent | keys", "construct", false, false},
		{".c.x | path", "construct", false, false},
		{".b | to_number", "string", false, false},
		{".a | to_string", "string", false, false},
		{".b | trim", "string", false, false},
		{"\"v=\\(.a)\"", "string", false, false},
		{".b | @uri", "encode", false, false},
		{".b | @sh", "encode", false, false},
		{"explode(.)", "anchors", true, true},
		{".c2 | alias", "anchors", false, false},
		{"split_doc", "splitdoc", false, false},
		{".d[] | split_doc", "splitdoc", false, false},
		{"eval(\".a\")", "eval", true, false},
		{"error(\"boom\")", "error", false, false},
		{"select(.a > " + n + ") | error(\"boom at \" + .id)", "error", false, false},
		// operators not covered above, each at least once (all document-local and deterministic)
		{".d | filter(. > " + n + ")", "construct", false, false},
		{".c | map_values(. // \"none\")", "construct", false, false},
		{".d | any_c(. > " + n + ")", "construct", false, false},
		{".d | all", "construct", false, false},
		{".e | flatten(1)", "construct", false, false},
		{"[.d, [.a]] | flatten", "construct", false, false},
		{".c.x | parent", "path", true, false},
		{".c.x | parent(2) | .id", "path", true, false},
		{".e[0].k | parent(1) | .v", "path", true, false},
		{".d | array_to_map", "construct", false, false},
		{".a | to_string", "string", false, false},
		{".b | trim", "string", false, false},
		{".b | downcase", "string", false, false},
		{".c | omit([\"x\"])", "construct", false, false},
		{".a | line_comment", "comments", false, false},
		{".c | head_comment", "comments", false, false},
		{". | foot_comment", "comments", false, false},
		{".c | anchor", "anchors", false, false},
		{".c | style", "style", false, false},
		{".. | select(tag == \"!!bool\") | not", "recurse", false, false},
		{".d[] | select(. % 2 == 0)", "select", true, false},
		{".a as $x | .c as $y | {\"x\": $x, \"y\": $y.y}", "variable", false, false},
		{".c.x ref $r | $r = 7", "variable", false, true},
		{". *+ {\"d\": [99]}", "merge", false, false},
		{". *? {\"a\": 100, \"zz\": 1}", "merge", false, false},
		{". *d {\"c\": {\"x\": 0}}", "merge", false, false},
		{". *n {\"a\": 100, \"zz\": 1}", "merge", false, false},
		{".d - [" + n + "]", "construct", false, false},
		{".d + .d", "construct", false, false},
		{".c + {\"w\": 1}", "construct", false, false},
		{".a / 2", "construct", false, false},
		{".b * 2", "string", false, false},
		{"[.a, .b, .f, .g] | map(type)", "construct", false, false},
		{"[.a, .b, .f, .g] | map(kind)", "construct", false, false},
		{".e | map(has(\"w\"))", "construct", false, false},
		{".d | .[0]", "path", true, false},
		{".c | to_entries | map(.key)", "construct", false, false},
		{".c | with_entries(select(.value != null))", "entries", false, false},
		{".e | map(select(.k | test(\"a\")))", "construct", false, false},
		{".b | match(\"[a-z]+\"; \"g\") | .string", "regex", false, false},
		{".b | capture(\"(?P<first>[a-z])\")", "regex", false, false},
		{".b | sub(\"[aeiou]\"; \"_\")", "regex", false, false},
		{".b | split(\"\") | length", "string", false, false},
		{".id | @base64", "encode", false, false},
		{".c | to_xml", "encode", false, false},
		{".c | to_props", "encode", false, false},
		{".d | @tsv", "encode", false, false},
		{".c | to_yaml | from_yaml", "encode", false, false},
		{".c | @yaml", "encode", false, false},
		{".b | @sh", "encode", false, false},
		{"\"1700000000\" | to_number | from_unix", "datetime", false, false},
		{"\"2021-05-06T07:08:09Z\" | format_datetime(\"2006-01-02\")", "datetime", false, false},
		{"\"2021-05-06T07:08:09Z\" | to_unix", "datetime", false, false},
		{"with_dtf(\"2006-01-02\"; \"2021-05-06\" | format_datetime(\"Jan 2\"))", "datetime", false, false},
		{"explode(.c)", "anchors", true, true},
		{".e |= map(. * {\"seen\": true})", "assign", true, true},
		{"del(.e[] | select(.k == " + q(w) + "))", "delete", true, true},
		{"del(.c.missing)", "delete", true, true},
		{"del(.d[1:])", "delete", true, true},
		{"to_entries | map(select(.key != \"d\")) | from_entries", "entries", false, false},
		{".d |= map(. + 1)", "assign", true, true},
		{".d[1:] = [0]", "assign", true, true},
		{".e[] |= pick([\"k\"])", "assign", true, true},
		{".c |= sort_keys(.)", "sort", true, true},
		{".e |= (sort_by(.v) | reverse)", "sort", true, true},
		{".d |= unique", "assign", true, true},
		{"(.a, .c.x) |= . * 2", "assign", true, true},
		{"(.. | select(tag == \"!!int\")) |= . + 1", "assign", true, true},
		{"(.. | select(tag == \"!!str\")) |= upcase", "assign", true, true},
		{"setpath([\"a\"]; 9)", "paths", true, true},
		{"setpath([\"c\", \"deep\"]; .a)", "paths", true, true},
		{"delpaths([[\"a\"], [\"c\", \"x\"]])", "paths", true, true},
		{"[.. | path] | length", "paths", false, false},
		{"[.. | select(tag == \"!!int\") | path]", "paths", false, false},
		{"pick([\"id\", \"c\"]) | .c |= pick([\"x\"])", "paths", false, false},
		{".d[5] = 1", "assign", true, true},
		// literals of the expression that are updated with document data: the parsed tree must not keep the update
		{".new = {\"n\": 0} | .new.n += .a", "literal-update", true, true},
		{".lit = [] | .lit += .d", "literal-update", true, true},
		{".tags = [\"x\"] | .tags += [.b]", "literal-update", true, true},
		{".d[] as $x ireduce (0; . += $x)", "literal-update", false, false},
		{"(.d[5] // 100) | . += .a", "literal-update", false, false},
		{"{\"sum\": 0} | .sum += 1", "literal-update", false, false},
		{".e[] as $i ireduce ({\"n\": 0}; .n += $i.v)", "literal-update", false, false},
		{"[1, 2] | .[0] += 5", "literal-update", false, false},
		{"\"s\" | . += \"t\"", "literal-update", false, false},
		{".acc = {\"k\": []} | .acc.k += [.id]", "literal-update", true, true},
		// relative (|=) forms of the assignable operators
		{".b style |= \"double\"", "style", true, true},
		{".c style |= \"flow\"", "style", true, true},
		{".a style = (.b | style)", "style", true, true},
		{".b tag |= \"!!str\"", "style", true, true},
		{".a tag = (.b | tag)", "style", true, true},
		{".a line_comment |= \"rel\"", "comments", true, true},
		{".c head_comment |= \"rel\"", "comments", true, true},
		{".a line_comment = .b", "comments", true, true},
		{".c anchor = \"anc2\"", "anchors", true, true},
		{".c anchor |= \"rel\"", "anchors", true, true},
		{"... comments |= \"c\"", "comments", true, true},
		// regular expressions built from the document (string interpolation)
		{".c.y as $p | .e[] | select(.k | test(\"^\\($p)\")) | .v", "regex", true, false},
		{".c.y as $p | [.e[].k | test(\"^\\($p)\")]", "regex", false, false},
		{".id | test(\"d\\(.a)\")", "regex", false, false},
		{".id | sub(\"d\\(.a)\", \"D\")", "regex", false, false},
		{".b as $p | .id | match(\"\\($p)\") | .string", "regex", false, false},
		{".id | capture(\"(?P<file>f[0-9]+)d(?P<doc>[0-9]+)\")", "regex", false, false},
		{".e | pivot", "construct", false, false},
		{"[.e[] | keys] | flatten | unique", "construct", false, false},
		{".e | map(keys | length)", "construct", false, false},
		{".d | .[" + strconv.Itoa(r.Range(-6, 6)) + ":" + strconv.Itoa(r.Range(-6, 6)) + "]", "slice", false, false},
		{".d | .[" + strconv.Itoa(r.Range(-6, 6)) + ":]", "slice", false, false},
		{".d | .[:" + strconv.Itoa(r.Range(-6, 6)) + "]", "slice", false, false},
		{".b | .[" + strconv.Itoa(r.Range(-3, 3)) + ":" + strconv.Itoa(r.Range(-3, 3)) + "]", "slice", false, false},
		{".d[" + strconv.Itoa(r.Range(-6, 6)) + "]", "path", true, false},
		{"explode(.) | .c2", "anchors", true, true},
		{"with(.e[]; .v = .v * 2)", "with", true, true},
		{".a = (.d | length)", "assign", true, true},
		{".first = .e[0].k", "assign", true, true},
		{".ids = [.id, @DI@]", "assign-index", true, true},
	}
	t := Pick(r, ts)
	e := Expr{S: t.s, Family: t.family, Preserving: t.preserving, Mutating: t.mutating, Total: exprTotal(t.s)}
	// occasionally pipe two expressions
	if r.Chance(1, 6) {
		u := Pick(r, ts)
		if u.family != "error" && t.family != "error" && u.family != "splitdoc" && t.family != "splitdoc" {
			if !t.preserving && usesIndex(u.s) {
				// di/fi/filename of a node built by the expression is a known finding (no provenance); not drawn
				return e
			}
			e = Expr{S: "(" + t.s + ") | (" + u.s + ")", Family: t.family + "|" + u.family, Preserving: t.preserving && u.preserving, Mutating: t.mutating || u.mutating, Total: false}
			e.Alts = append(e.Alts, t.s, u.s)
		}
	} else if r.Chance(1, 10) {
		u := Pick(r, ts)
		// split_doc renumbers the documents in place; it is only drawn on its own
		if u.family != "error" && t.family != "error" && u.family != "splitdoc" && t.family != "splitdoc" {
			e = Expr{S: "(" + t.s + "), (" + u.s + ")", Family: t.family + "," + u.family, Preserving: t.preserving && u.preserving, Mutating: t.mutating || u.mutating, Total: exprTotal(t.s) && exprTotal(u.s) && !t.mutating && !u.mutating}
			e.Alts = append(e.Alts, t.s, u.s)
		}
	}
	e.Alts = append(e.Alts, ".")
	return e
}

// GenExprFamily draws until the family matches one of the wanted prefixes.
func GenExprWhere(r *Rand, ok func(Expr) bool) Expr {
	for i := 0; i < 1000; i++ {
		e := GenExpr(r)
		if ok(e) {
			return e
		}
	}
	panic(fmt.Sprintf("no expression satisfies the predicate"))
}

func usesIndex(s string) bool {
	return strings.Contains(s, "@DI@") || strings.Contains(s, "@FI@") || strings.Contains(s, "filename")
}

var nonTotalMarks = []string{".missing", ".h", ".new", ".first", ".ids", ".pos", ".x = @", ".y = @", ".z = f", ".c2", "d[5]", ".q ", "merged", "extra", "\"w\"", "error(", "split_doc", "eval("}

// exprTotal: the expression only traverses paths that exist in a document
// generated with DocGen.Full (and does not fail on it).
func exprTotal(s string) bool {
	for _, m := range nonTotalMarks {
		if strings.Contains(s, m) {
			return false
		}
	}
	return true
}

// ExprThemes: small families of expressions that share operator descriptors,
// caches or helper state. A themed job pool draws most of its jobs from one
// family so that evaluations which touch the same machinery meet each other.
var ExprThemes = map[string][]string{
	"assignops": {
		".b style = \"double\"", ".b style |= \"single\"", ".a style = (.b | style)", ".c style |= \"flow\"", ".. style=\"double\"", ".c style=\"flow\"",
		".b tag = \"!!str\"", ".b tag |= \"!!str\"", ".a tag = (.b | tag)", ".a line_comment = \"note\"", ".a line_comment |= \"rel\"", ".a line_comment = .b",
		". head_comment=\"top\"", ".c head_comment |= \"rel\"", ".c anchor = \"anc2\"", ".c anchor |= \"rel\"", "... comments=\"\"", "... comments |= \"c\"", ".a foot_comment = \"f\"", ".a foot_comment |= \"g\"",
		".b | style", ".b | tag", ".a | line_comment", ".c | anchor",
		// one right side, several matches on the left: the value belongs to the document, not to the expression
		".e[].v = .a", ".d[] = .a", ".c[] = .id", ".e[].k = .b", "(.a, .b) = .id", ".e[].v = .a", ".d[] = .a", ".c[] = .id",
	},
	"regex": {
		".c.y as $p | .e[] | select(.k | test(\"^\\($p)\")) | .v", ".c.y as $p | [.e[].k | test(\"^\\($p)\")]", ".id | test(\"d\\(.a)\")", ".id | sub(\"d\\(.a)\", \"D\")",
		".b as $p | .id | match(\"\\($p)\") | .string", ".id | capture(\"(?P<file>f[0-9]+)d(?P<doc>[0-9]+)\")", ".b | test(\"a\")", ".b | sub(\"a\", \"o\")", ".id | match(\"[a-z]+\") | .string", "[.e[].k | test(\"^\\(.)\")]",
		".b | split(\" \")", ".id | split(\"-\") | .[0]", "\"v=\\(.a)\"", "\"\\(.id):\\(.c.x)\"",
	},
	"sort": {
		".e |= sort_by(.k)", ".e |= sort_by(.v)", ".e |= sort_by(.k, .v)", ".d |= sort", ".d | sort", ".e | sort_by(.v) | .[0]", ".e | sort_by(.k) | .[].v", "[.e[] | .v] | sort | .[-1]", "sort_keys(.)", "sort_keys(..)",
		".d | sort | reverse", ".e | group_by(.k)", ".e | unique_by(.k)", ".d | unique", ".d | (min, max)", "[.. | select(kind == \"scalar\")] | sort",
	},
	"encode": {
		"to_json", "@json", "tojson", ".c | to_yaml", ".c | @props", ".d | @csv", "[.c] | @csv", ".b | @base64", ".b | @base64 | @base64d", ".c | to_json | from_json", ".c | to_xml", ". | to_yaml | from_yaml | .id", ".c | to_props | from_props",
		".b | @uri", ".b | @sh", ".c | to_json(0)", ".c | to_yaml(4)", ".d | @tsv", ".c | to_xml | from_xml",
	},
	"literals": {
		".new = {\"n\": 0} | .new.n += .a", ".lit = [] | .lit += .d", ".tags = [\"x\"] | .tags += [.b]", ".d[] as $x ireduce (0; . += $x)", "(.d[5] // 100) | . += .a", "{\"sum\": 0} | .sum += 1",
		".e[] as $i ireduce ({\"n\": 0}; .n += $i.v)", "[1, 2] | .[0] += 5", "\"s\" | . += \"t\"", ".acc = {\"k\": []} | .acc.k += [.id]", ".a = 5", ".c.new = \"v\"", "{\"k\": .a}", "[.a]",
	},
	"pathtypes": {
		"setpath(.p; \"v\")", "getpath(.p)", "delpaths([.p])", ".a[1] = \"v\"", ".a.\"1\" = \"v\"", ".a[\"1\"] = \"v\"", "setpath([\"a\", 1]; \"v\")", "setpath([\"a\", \"1\"]; \"v\")", ".p as $p | setpath($p; 1)", "[.. | path]", ".. | path", ".k.sub", ".\"k sub\" = 2", "setpath([\"k sub\"]; 3)", "setpath([\"k\", \"sub\"]; 3)",
	},
	"goccy":      {"."},
	"loadshared": {"."},
	"datetime": {
		".t | tz(\"UTC\")", ".t | tz(\"Australia/Sydney\")", ".t | tz(\"America/New_York\")", ".t | tz(\"Europe/Berlin\") | format_datetime(\"2006-01-02 15:04\")", ".t += \"3h\"", ".t -= \"30m\"", ".t | format_datetime(\"Monday\")", ".t | to_unix", "1700000000 | from_unix", ".t | tz(\"Asia/Tokyo\")",
		"with_dtf(\"2006-01-02T15:04:05Z\"; .t | format_datetime(\"15:04\"))", ".t | tz(\"Africa/Cairo\")", ".t | tz(\"Pacific/Auckland\")",
		// a layout that does not fit the data: the evaluation fails inside the with_dtf block
		"with_dtf(\"02/01/2006\"; .t | format_datetime(\"15:04\"))", "with_dtf(\"Jan 2, 2006\"; .t += \"3h\")", "with_dtf(\"2006\"; .t | tz(\"UTC\"))",
		"with_dtf(\"2006-01-02T15:04:05Z\"; .t += \"3h\")", ".t | format_datetime(\"2006\")", ".t | format_datetime(\"Jan 2\")",
	},
	// eval whose argument is itself an eval, many levels deep, the levels being data of the document
	"evalchain": {"eval(.e1)", ".r = eval(.e1)", "eval(.e1) | . + 1", "[eval(.e1), eval(.e3)]", "eval(.e2) as $x | $x", "with(.a; . = eval(\"1 + 1\")) | eval(.e1)"},
	// plain expressions: what varies in this theme is the encoder / decoder object and its preferences
	// evaluations without input (yq -n): every one starts from its own null document
	"nullinput": {".name = \"first\"", ".count = 2", "length", ".a.b = 1", "{\"a\": 1}", ". // \"d\"", ".[0] = 1", "keys", ".", ".x |= 3", "[., .]", ". == null", "to_json", ".l += [1]"},
	"encoderprefs": {".", ".", ".c", ".d", ".a", ".b", ".e", "[.a, .b]", "{\"k\": .c}", ".e[0]", ".id"},
	"snippet": {
		".a + .b", ".a * .b", ".a - .b", ".a > .b", ".a == .b", "[.a, .b] | sort", ".l | sort", ".l | max", ".l | min", ".l | unique", ".t += \"3h\"", ".t | format_datetime(\"2006-01-02\")", ".l | sort_by(.)", ".a % .b", "[.l[] | . + 1]",
	},
	"variables": {
		".a as $x | $x + 1", ".d as $d | $d | length", ".a as $x | .d[] | . + $x", ".d[] as $i ireduce (0; . + $i)", ".e[] as $i ireduce ({}; .[$i.k] = $i.v)", ".c.y as $p | .e[] | select(.k == $p)", ".a as $x | .b as $y | [$x, $y]",
		"with(.c; .x = 1 | .q = 2)", "with(.e[]; .v = .v * 2)", ".c |= with_entries(.key |= \"k_\" + .)", ".c | to_entries | from_entries", ". as $d | $d.a", ".e[] as $x | $x.k",
	},
}

var ExprThemeNames = []string{"assignops", "regex", "sort", "encode", "variables", "literals", "snippet", "datetime", "pathtypes", "goccy", "loadshared", "encoderprefs", "nullinput", "evalchain"}

var commentOpRe = regexp.MustCompile(`(head|line|foot)_comment\s*(\|=|=)?`)

// readsComments: the expression uses a comment operator as a getter, so the
// text and placement of comments becomes part of the result.
func readsComments(s string) bool {
	for _, m := range commentOpRe.FindAllStringSubmatch(s, -1) {
		if m[2] == "" {
			return true
		}
	}
	return false
}
