package sim

import (
	"bytes"
	"encoding/json"
	"fmt"
	"regexp"
	"sort"
	"strconv"
	"strings"
	"sync"
)

// C18 — evaluation is deterministic and independent of earlier or concurrent runs.
type C18 struct{}

func (C18) ID() string    { return "C18" }
func (C18) Level() string { return "exploration" }

// NonReplayIsViolation: an outcome that varies between executions of the same
// scenario is exactly what C18 forbids.
func (C18) NonReplayIsViolation() bool { return true }

func (C18) Describe() CheckInfo {
	return CheckInfo{
		Rule: "Five seeded sub-checks. (a) run-to-run determinism: a scenario of the C10/C11/C12/C19 generators is executed in 3 fresh yq processes with different GOMAXPROCS, sandbox paths and PIDs; stdout, exit, final files and masked stderr must be identical (O18.1). (b) history independence: a history of 10-40 evaluations (stream / all-at-once / string APIs, also failing ones) over a pool of 6-12 jobs shares one parser, cached expression trees and pooled decoder/encoder instances inside one libsim process; every step must equal the same job alone in a fresh process (O18.2). (c) interleavings: 2-4 evaluations with private objects run as goroutines of which exactly one is runnable; a seeded choice list (or run-to-completion with 1-3 pre-emptions) decides every hand-off at operator dispatch, lexer token, parse phase, decode/print iteration and every Read/Write; every task must return its solo result (O18.3). (d) the same task pools free-running in a -race build (not deterministic simulation, labelled so): no race report (O18.4). (e) two processes: two real yq processes share one working directory and one TMPDIR (front matter and -i on files of the same base name); the first parks at a seeded step boundary of its own run (hook action gate on a named pipe), the second runs from start to end, the first goes on; both must print, exit and leave their files as each does alone, with no temporary files left (O18.5). Non-trivial = a history of >= 2 steps, an interleaving with >= 1 switch between tasks, or a repeated process run; distinct = distinct (sub-check, schedule signature / trace signature, result hash).",
		Assumptions: []string{
			"now, shuffle, env/strenv/envsubst and tz/from_unix are excluded as the property says; the clock is pinned in libsim anyway",
			"pre-emption only at yield points: a hazard confined between two yields is left to the -race stage",
			"Go-runtime randomness (map order, temp-file names) cannot be owned by the simulator and is only sampled by repetition in (a)",
			"printers are created per evaluation: a printer legitimately carries separator state across the documents of one output stream (C10)",
		},
		Real:    []string{"yq binary (tag verif) for (a)", "pkg/yqlib linked into the libsim worker: parser, lexer rule table, operators, decoders, encoders, printer", "Go race detector for (d)"},
		Stubbed: []string{"goroutine scheduling in (c): hand-off at verifhook.Yield, decided by the scenario's choice list", "task input/output streams (chunked reader, buffer writer)"},
	}
}

// --- job pools -------------------------------------------------------------------

func genLibInput(r *Rand, format string, k int) []byte {
	if format == "yaml-nopre" {
		format = "yaml"
	}
	format = strings.TrimSuffix(format, "-reg")
	switch format {
	case "yaml", "json":
		fs := GenMultiFiles(r, MultiOpts{MaxFiles: 1, MaxDocs: 3, Format: format, PlainOnly: r.Chance(1, 2)})
		data := fs[0].Bytes()
		if len(data) == 0 {
			data = []byte("id: " + DocID(r, k, 0) + "\na: 1\n")
		}
		return data
	default:
		return []byte(FormatByName(format).Gen(r, DocID(r, k, 0)))
	}
}

func genLibJob(r *Rand, k int, allowLoad bool) LibJob {
	return genThemedLibJob(r, k, allowLoad, "")
}

func genThemedLibJob(r *Rand, k int, allowLoad bool, theme string) LibJob {
	if theme != "" && r.Chance(3, 4) {
		j := LibJob{ErrAt: -1}
		j.API = Pick(r, []string{"stream", "stream", "stream", "all", "string", "stringall", "parse"})
		j.InFmt = Pick(r, []string{"yaml", "yaml", "yaml", "json"})
		j.OutFmt = Pick(r, []string{"yaml", "yaml", "json0", "props", "xml"})
		fs := GenMultiFiles(r.Fork("in"), MultiOpts{MaxFiles: 1, MaxDocs: 3, Format: j.InFmt, PlainOnly: r.Chance(1, 2)})
		j.Input = Bytes(fs[0].Bytes())
		if theme == "encode" && r.Chance(1, 5) {
			// an encode operator that fails after it has produced a lot: nothing of it may show up later
			var rows strings.Builder
			rows.WriteString("id: " + DocID(r, k, 0) + "\nrows:\n")
			for i := 0; i < 700; i++ {
				rows.WriteString("  - [" + strconv.Itoa(i) + ", abcdefgh]\n")
			}
			rows.WriteString("  - {not: a row}\n")
			j.InFmt, j.OutFmt = "yaml", "yaml"
			j.Input = Bytes(rows.String())
			j.Expr = Pick(r, []string{".rows | @csv", ".rows | @tsv", ".rows | to_csv"})
			return j
		}
		if theme == "evalchain" {
			j.API = Pick(r, []string{"stream", "stream", "all", "string"})
			j.InFmt, j.OutFmt = "yaml", Pick(r, []string{"yaml", "json0"})
			n := r.Range(9, 14)
			var b strings.Builder
			b.WriteString("id: " + DocID(r, k, 0) + "\na: " + strconv.Itoa(r.Range(1, 9)) + "\n")
			for i := 1; i < n; i++ {
				b.WriteString(fmt.Sprintf("e%d: eval(.e%d)\n", i, i+1))
			}
			b.WriteString(fmt.Sprintf("e%d: .a\n", n))
			j.Input = Bytes(b.String())
			j.DecSlot, j.EncSlot = r.Intn(2), r.Intn(2)
			j.Expr = Pick(r, ExprThemes[theme])
			return j
		}
		if theme == "nullinput" {
			j.API = Pick(r, []string{"new", "new", "allnew"})
			j.InFmt, j.OutFmt = "yaml", Pick(r, []string{"yaml", "json0"})
			j.Input = Bytes("")
			j.DecSlot, j.EncSlot = r.Intn(2), r.Intn(2)
			j.Expr = Pick(r, ExprThemes[theme])
			return j
		}
		if theme == "encoderprefs" {
			// encoders (and decoders) built with different preferences, or taken from the format registry, side by side
			j.API = Pick(r, []string{"stream", "stream", "all"})
			j.InFmt = Pick(r, []string{"yaml", "yaml", "json", "yaml-reg", "json-reg", "xml-reg", "props-reg", "csv-reg", "lua-reg", "toml-reg"})
			j.OutFmt = Pick(r, []string{"lua", "lua-prefix", "lua-globals", "lua-unquoted", "lua-reg", "yaml", "yaml-wrap", "yaml-reg", "json", "json-wrap", "json-reg",
				"props", "props-sep", "props-reg", "csv", "csv-semi", "csv-reg", "xml", "xml-attr", "xml-reg", "shell", "shell-reg"})
			j.Input = Bytes(genLibInput(r.Fork("in"), j.InFmt, k))
			j.DecSlot, j.EncSlot = r.Intn(2), r.Intn(2)
			if strings.HasPrefix(j.OutFmt, "csv") {
				j.Expr = Pick(r, []string{".d", "[.d]", ".e | map(.k)", ".e"})
			} else if j.InFmt == "yaml" || j.InFmt == "json" || j.InFmt == "yaml-reg" || j.InFmt == "json-reg" {
				j.Expr = Pick(r, ExprThemes[theme])
			} else {
				j.Expr = Pick(r, []string{".", ".", FormatByName(strings.TrimSuffix(j.InFmt, "-reg")).IDPath})
			}
			return j
		}
		if theme == "loadshared" {
			// one file, loaded through different load operators by different evaluations
			j.InFmt, j.OutFmt = "yaml", Pick(r, []string{"yaml", "json0"})
			j.Input = Bytes("id: " + DocID(r, k, 0) + "\na: 1\n")
			j.Files = []File{{Name: "shared.properties", Data: Bytes("v = 1\nw.x = two\n")}, {Name: "shared.yaml", Data: Bytes("v: 1\nw: {x: two}\n")}}
			j.Expr = Pick(r, []string{".l = load(\"shared.properties\")", ".l = load_props(\"shared.properties\")", ".l = load_str(\"shared.properties\")", ".l = load_props(\"shared.properties\").w.x",
				".l = load(\"shared.yaml\")", ".l = load_str(\"shared.yaml\")", ".l = load(\"shared.yaml\").w", ".l = (load_str(\"shared.yaml\") | length)", ".l = load_props(\"shared.yaml\")"})
			return j
		}
		if theme == "goccy" {
			// the library's second YAML decoder, reused over inputs that carry comments in the same places
			j.InFmt = "goccy"
			j.OutFmt = "yaml"
			j.API = Pick(r, []string{"stream", "all", "string"})
			w := func() string { return Pick(r, wordPool) + strconv.Itoa(r.Range(0, 99)) }
			j.Input = Bytes(Pick(r, []string{"# head " + w() + "\n", ""}) + "id: " + DocID(r, k, 0) + Pick(r, []string{" # " + w() + "\n", "\n"}) + "a: " + strconv.Itoa(r.Range(0, 9)) + Pick(r, []string{" # " + w() + "\n", " # " + w() + "\n", "\n"}) + "c:\n  x: 1" + Pick(r, []string{" # " + w() + "\n", "\n"}) + "d:\n  - 1\n  - 2\n")
			j.Expr = Pick(r, []string{".", ".", ".a", ".c", "... comments=\"\"", ".a line_comment", ".id | line_comment", ".c.x | line_comment"})
			return j
		}
		if theme == "pathtypes" {
			// paths taken from the document: the same spelling with different element types
			j.InFmt = "yaml"
			j.Input = Bytes("id: " + DocID(r, k, 0) + "\np: " + Pick(r, []string{"[a, 1]", "[a, \"1\"]", "[\"k sub\"]", "[k, sub]", "[a, 0]", "[a, \"0\"]", "[\"1\"]", "[1]"}) + "\na: " + Pick(r, []string{"{}", "[]", "null", "{\"1\": x}", "[x, y]"}) + "\nk: {sub: 1}\n")
		}
		if theme == "snippet" || theme == "datetime" {
			// scalars whose type has to be guessed again while evaluating: custom tags, CSV cells, dates
			switch r.Intn(3) {
			case 0:
				j.InFmt = "yaml"
				j.Input = Bytes(fmt.Sprintf("id: %s\na: !mytag %d\nb: !mytag %d\nl: [!t 3, !t 1, !t 2]\nt: 2021-01-0%dT10:00:00Z\n", DocID(r, k, 0), r.Range(1, 9), r.Range(1, 9), r.Range(1, 9)))
			case 1:
				j.InFmt = Pick(r, []string{"csv", "tsv"})
				sep := ","
				if j.InFmt == "tsv" {
					sep = "\t"
				}
				j.Input = Bytes(GenCSV(r.Fork("csv"), DocID(r, k, 0), sep))
				j.Expr = Pick(r, []string{".", ".[0]", "map(.a)", ".[] | .a", "sort_by(.a)", "length"})
				return j
			default:
				j.InFmt = "yaml"
				j.Input = Bytes(fmt.Sprintf("id: %s\na: !mytag %d\nb: !mytag %d\nl: [!t 3, !t 1, !t 2]\nt: 2021-01-0%dT10:00:00Z\n", DocID(r, k, 0), r.Range(1, 9), r.Range(1, 9), r.Range(1, 9)))
			}
		}
		j.DecSlot, j.EncSlot = r.Intn(2), r.Intn(2)
		j.Expr = Pick(r, ExprThemes[theme])
		if (j.API == "stream" || j.API == "all") && r.Chance(1, 3) {
			j.Chunks = genChunks(r)
		}
		return j
	}
	j := LibJob{ErrAt: -1}
	j.API = Pick(r, []string{"stream", "stream", "stream", "stream", "all", "all", "string", "stringall", "stream"})
	j.InFmt = Pick(r, []string{"yaml", "yaml", "yaml", "yaml", "yaml", "json", "json", "props", "csv", "xml", "toml", "lua", "base64", "uri", "base64-reg"})
	j.OutFmt = Pick(r, []string{"yaml", "yaml", "yaml", "json", "json0", "json0", "props", "xml", "xml", "lua", "yaml-reg", "json-reg", "lua-prefix", "shell"})
	if r.Chance(1, 6) {
		// yaml decoder without header pre-processing, sometimes on a comment-only input
		j.InFmt = "yaml-nopre"
	} else if r.Chance(1, 12) {
		// the second YAML decoder of the library (goccy): plain documents only
		j.InFmt = "goccy"
		j.Input = Bytes(Pick(r, []string{"# head\n", ""}) + "id: " + DocID(r, k, 0) + Pick(r, []string{" # on id\n", "\n"}) + "a: " + strconv.Itoa(r.Range(0, 9)) + Pick(r, []string{" # on a\n", "\n"}) + "c:\n  x: 1" + Pick(r, []string{" # deep\n", "\n"}) + "d:\n  - 1\n  - 2\n")
		j.Expr = Pick(r, []string{".", ".id", ".a", ".c", ".d", "keys", ".e[].k"})
		j.DecSlot, j.EncSlot = r.Intn(2), r.Intn(2)
		return j
	} else if r.Chance(1, 12) {
		j.InFmt = "csv-auto"
		j.Input = Bytes("id,a,b,c\n" + DocID(r, k, 0) + ",1,\"{x: 1}\",\"[1, 2]\"\n" + DocID(r, k, 1) + ",true,plain,3.5\n")
		j.Expr = Pick(r, []string{".", ".[0]", ".[] | .b", "map(.c)", ".[1].a"})
		j.DecSlot, j.EncSlot = r.Intn(2), r.Intn(2)
		return j
	}
	j.Input = Bytes(genLibInput(r.Fork("in"), j.InFmt, k))
	if (strings.HasPrefix(j.InFmt, "base64") || j.InFmt == "uri" || j.InFmt == "props" || j.InFmt == "toml") && r.Chance(1, 4) {
		j.Input = Bytes("") // nothing to decode this time
	}
	j.DecSlot = r.Intn(2)
	j.EncSlot = r.Intn(2)
	if j.InFmt == "yaml-nopre" {
		if r.Chance(1, 3) {
			j.Input = Bytes(Pick(r, []string{"# just a comment\n", "# two\n# lines\n", "# c\n---\n# d\n"}))
		} else {
			j.Input = Bytes(genLibInput(r.Fork("in"), "yaml", k))
		}
	}
	if r.Chance(1, 10) {
		// csv / tsv output of a sequence result
		j.OutFmt = Pick(r, []string{"csv", "tsv"})
		j.InFmt = "yaml"
		j.Input = Bytes(genLibInput(r.Fork("in"), "yaml", k))
		j.Expr = Pick(r, []string{".d", ".e", "[.d]", ".e | map(.k)"})
		j.DecSlot, j.EncSlot = r.Intn(2), r.Intn(2)
		return j
	}
	if j.InFmt == "yaml" || j.InFmt == "json" || j.InFmt == "yaml-nopre" {
		e := GenExprWhere(r.Fork("expr"), func(e Expr) bool { return !strings.Contains(e.Family, "splitdoc") })
		j.Expr = e.Combined()
	} else {
		fi := FormatByName(strings.TrimSuffix(j.InFmt, "-reg"))
		j.Expr = Pick(r, []string{".", fi.IDPath, "[" + fi.IDPath + "]", "keys", "..", "[.. | select(kind == \"scalar\")] | sort", "to_entries", "sort_keys(..)"})
	}
	switch r.Intn(14) {
	case 0:
		j.Expr = Pick(r, []string{".a | | .b", "(.a", ".a]", "select("}) // does not parse
	case 1:
		j.Expr = "select(di == 1) | (.id - 1)" // fails on the second document
	case 2:
		j.Expr = Pick(r, []string{".e |= sort_by(.k)", ".d |= sort", "[.. | select(kind == \"scalar\")] | sort", ".e | sort_by(.v) | .[0]", "sort_keys(..)", ".d | sort | reverse"})
	case 3:
		j.Expr = Pick(r, []string{"to_json", "@yaml", ".c | to_json | from_json", ".c | to_xml", ".c | @props", ".d | @csv", "[.c] | @csv", ".b | @base64 | @base64d", ". | to_yaml | from_yaml | .id", ".c | to_props | from_props"})
	case 4:
		if allowLoad {
			uniq := DocID(r, k, 9)
			switch r.Intn(5) {
			case 0:
				name := fmt.Sprintf("l%d.yaml", k)
				j.Files = []File{{Name: name, Data: Bytes("v: " + uniq + "\nw: [1, 2]\n")}}
				j.Expr = fmt.Sprintf(".loaded = load(\"%s\").v", name)
			case 1:
				name := fmt.Sprintf("p%d.properties", k)
				j.Files = []File{{Name: name, Data: Bytes("v = " + uniq + "\n")}}
				j.Expr = fmt.Sprintf(".loaded = load_props(\"%s\").v", name)
			case 2:
				name := fmt.Sprintf("x%d.xml", k)
				j.Files = []File{{Name: name, Data: Bytes("<r><v>" + uniq + "</v></r>\n")}}
				j.Expr = fmt.Sprintf(".loaded = load_xml(\"%s\").r.v", name)
			case 3:
				// the loaded tree is updated in place: nothing of that may stay behind
				name := fmt.Sprintf("t%d.yaml", k)
				j.Files = []File{{Name: name, Data: Bytes("owners: [root]\nn: 1\nv: " + uniq + "\n")}}
				j.Expr = Pick(r, []string{fmt.Sprintf(". as $d | load(\"%s\") | .owners += [$d.id]", name), fmt.Sprintf(".tpl = load(\"%s\") | .tpl.n += .a", name), fmt.Sprintf(".a as $a | load(\"%s\") | .n |= . + $a", name)})
			default:
				name := fmt.Sprintf("s%d.txt", k)
				j.Files = []File{{Name: name, Data: Bytes(uniq)}}
				j.Expr = fmt.Sprintf(".loaded = load_str(\"%s\")", name)
			}
			if j.InFmt != "yaml" && j.InFmt != "json" {
				j.InFmt = "yaml"
				j.Input = Bytes(genLibInput(r.Fork("in2"), "yaml", k))
			}
		}
	}
	if j.API == "stream" || j.API == "all" {
		if r.Chance(1, 3) {
			j.Chunks = genChunks(r)
		}
		if r.Chance(1, 15) {
			j.ErrAt = int64(r.Intn(len(j.Input) + 1))
		}
	}
	return j
}

func jobKey(j *LibJob) string {
	c := *j
	c.DecSlot, c.EncSlot, c.LazyInit, c.SharePrinter = 0, 0, false, false
	data, _ := json.Marshal(&c)
	return shortHash(data) + shortHash(append([]byte("k"), data...))
}

type soloCache struct {
	mu sync.Mutex
	m  map[string][2]string
}

var soloRefs = &soloCache{m: map[string][2]string{}}

// soloRef: the job alone in a fresh process (cached by job content).
func soloRef(c *Ctx, j *LibJob) (out, errText string) {
	key := jobKey(j)
	soloRefs.mu.Lock()
	v, ok := soloRefs.m[key]
	soloRefs.mu.Unlock()
	if ok {
		return v[0], v[1]
	}
	c1 := *j
	c1.LazyInit = false
	sc := &Scenario{Kind: "lib", Lib: &LibScenario{Mode: "solo", Jobs: []LibJob{c1}}}
	res := c.W.RunLib(c.W.LibSim, "solo", sc, 0, RunOpts{Slot: c.Slot})
	if !c.Quiet {
		c.Stats.Add("solo_reference_processes", 1)
	}
	if res.TimedOut || res.Exit != 0 || len(res.Results) != 1 {
		harnessPanic("solo reference run failed: exit=%d stderr=%s", res.Exit, clip(res.Stderr, 300))
	}
	soloRefs.mu.Lock()
	if len(soloRefs.m) > 100000 {
		soloRefs.m = map[string][2]string{}
	}
	soloRefs.m[key] = [2]string{res.Results[0].Out, res.Results[0].Err}
	soloRefs.mu.Unlock()
	return res.Results[0].Out, res.Results[0].Err
}

// --- generation ------------------------------------------------------------------

func (C18) Generate(c *Ctx, r *Rand, index int) *Scenario {
	rs := r.Fork("shape")
	sub := rs.Weighted([]int{30, 25, 35, 10})
	switch sub {
	case 0:
		var sc *Scenario
		src := Pick(rs, []string{"C10", "C10", "C19", "C12", "C11"})
		if rs.Chance(1, 10) {
			return genPeerScenario(r.Fork("peer"))
		} else if rs.Chance(1, 12) {
			sc = genFrontMatterScenario(r.Fork("fm"))
			src = "FM"
		} else if rs.Chance(1, 6) {
			sc = genMapOrderScenario(r.Fork("maporder"))
			src = "MAPORDER"
		} else {
			sc = CheckByID(src).Generate(c, r.Fork("proc"), index)
		}
		if sc == nil {
			return nil
		}
		if strings.Contains(sc.Strace, "when=") {
			// which system call `when=N` hits is decided by the Go runtime's choice of thread, not by the
			// scenario: not a fair input for a determinism oracle
			sc.Strace = ""
		}
		sc.SetMeta("sub", "determinism")
		sc.SetMeta("src", src)
		return sc
	case 1:
		rp := r.Fork("pool")
		n := rp.Range(6, 12)
		lib := &LibScenario{Mode: "history"}
		theme := ""
		if rp.Chance(1, 2) {
			theme = Pick(rp, ExprThemeNames)
		}
		for k := 0; k < n; k++ {
			lib.Jobs = append(lib.Jobs, genThemedLibJob(rp.Fork("job"+strconv.Itoa(k)), k, true, theme))
		}
		// the printer as a kept object (the property names it): for output formats whose printing carries no
		// separator or comment state from one result to the next, jobs share one printer per encoder instance
		rpp := rp.Fork("printers")
		for k := range lib.Jobs {
			j := &lib.Jobs[k]
			if (j.API == "stream" || j.API == "all") && (j.OutFmt == "json" || j.OutFmt == "json0" || j.OutFmt == "props") {
				j.SharePrinter = rpp.Chance(1, 2)
				j.NulSep = rpp.Chance(1, 4)
			}
		}
		if rpp.Chance(1, 3) {
			// a value the NUL-separated form must refuse, and healthy ones through the same printer afterwards
			slot := rpp.Intn(2)
			out := Pick(rpp, []string{"props", "props", "json0"})
			bad := LibJob{API: Pick(rpp, []string{"stream", "all"}), Expr: Pick(rpp, []string{".", ".s", "{\"k\": .s}"}), InFmt: "json", OutFmt: "props", Input: Bytes("{\"s\": \"a\\u0000b\", \"id\": \"" + DocID(rpp, 90, 0) + "\"}\n"), EncSlot: slot, ErrAt: -1, SharePrinter: true, NulSep: true}
			good := LibJob{API: Pick(rpp, []string{"stream", "all"}), Expr: Pick(rpp, []string{".", ".id"}), InFmt: "json", OutFmt: out, Input: Bytes("{\"s\": \"fine\", \"id\": \"" + DocID(rpp, 91, 0) + "\"}\n"), EncSlot: slot, ErrAt: -1, SharePrinter: true, NulSep: true}
			if out != "props" {
				good.NulSep = rpp.Chance(1, 2)
			}
			lib.Jobs = append(lib.Jobs, bad, good)
			n = len(lib.Jobs)
		}
		for i, steps := 0, rp.Range(10, 40); i < steps; i++ {
			lib.History = append(lib.History, rp.Intn(n))
		}
		return &Scenario{Kind: "lib", Lib: lib, Meta: map[string]any{"sub": "history", "theme": theme}}
	case 2, 3:
		rp := r.Fork("pool")
		n := rp.Range(2, 4)
		lib := &LibScenario{Mode: "interleave"}
		loadHeavy := rp.Chance(1, 3)
		theme := ""
		if !loadHeavy && rp.Chance(1, 2) {
			theme = Pick(rp, ExprThemeNames)
		}
		if sub == 3 {
			// the race stage walks through the operator families one after the other: two evaluations
			// only race if both touch the same machinery
			loadHeavy = index%(len(ExprThemeNames)+2) == len(ExprThemeNames)
			theme = ""
			if k := index % (len(ExprThemeNames) + 2); k < len(ExprThemeNames) {
				theme = ExprThemeNames[k]
			}
		}
		for k := 0; k < n; k++ {
			j := genThemedLibJob(rp.Fork("job"+strconv.Itoa(k)), k, true, theme)
			if loadHeavy && len(j.Files) == 0 {
				j = genLoadJob(rp.Fork("load"+strconv.Itoa(k)), k)
			}
			lib.Jobs = append(lib.Jobs, j)
			lib.Tasks = append(lib.Tasks, k)
		}
		lib.LazyInit = rp.Chance(1, 4)
		if sub == 3 {
			lib.Mode = "race"
			return &Scenario{Kind: "lib", Lib: lib, Meta: map[string]any{"sub": "race"}}
		}
		if rp.Chance(1, 2) {
			for i, m := 0, rp.Range(20, 400); i < m; i++ {
				lib.Choices = append(lib.Choices, rp.Intn(4))
			}
		} else {
			// run-to-completion with few pre-emptions at yields that exist: measure first
			probe := &Scenario{Kind: "lib", Lib: lib}
			res := c.W.RunLib(c.W.LibSim, "interleave", probe, 0, RunOpts{Slot: c.Slot})
			total := int(res.Yields)
			if total < 1 {
				total = 1
			}
			for i, m := 0, rp.Range(1, 3); i < m; i++ {
				lib.Preempt = append(lib.Preempt, rp.Intn(total))
			}
		}
		return &Scenario{Kind: "lib", Lib: lib, Meta: map[string]any{"sub": "interleave"}}
	}
	return nil
}

func genLoadJob(r *Rand, k int) LibJob {
	for i := 0; i < 200; i++ {
		j := genLibJob(r.Fork("try"+strconv.Itoa(i)), k, true)
		if len(j.Files) > 0 {
			return j
		}
	}
	return genLibJob(r, k, true)
}

func genFrontMatterScenario(r *Rand) *Scenario {
	g := &DocGen{R: r.Fork("fm"), Plain: true}
	body := g.Doc(DocID(r, 0, 0)).YAML()
	docs := []string{"---\n" + body, "---\n# Title\n\ntext\n"}
	mode := Pick(r, []string{"process", "extract"})
	expr := Pick(r, []string{".a = 1", ".", ".id", "filename", ".src = filename", "[.id, filename]"})
	return &Scenario{Kind: "proc", Argv: []string{"--front-matter=" + mode, expr, "post.md"}, Files: []File{{Name: "post.md", Docs: docs, Mode: 0644}},
		Meta: map[string]any{"expr": expr, "keep_flags": []any{"--front-matter=" + mode}}}
}

// genPeerScenario: two yq processes at the same time in one working directory and one TMPDIR, on two
// different files (often of the same base name in two directories). Which of the first process's step
// boundaries the second one runs at is the scenario's gate pick.
func genPeerScenario(r *Rand) *Scenario {
	g := &DocGen{R: r.Fork("doc"), Plain: true}
	bodyA := g.Doc(DocID(r, 0, 0)).YAML()
	bodyB := g.Doc(DocID(r, 1, 0)).YAML()
	exprs := []string{".a = 1", ".", ".id", ".src = \"x\"", "[.id]", "del(.id)", ".. style=\"double\""}
	exprA, exprB := Pick(r, exprs), Pick(r, exprs)
	base := Pick(r, []string{"post.md", "t.yaml", "a b.yml"})
	nameA, nameB := "d1/"+base, "d2/"+base
	if r.Chance(1, 4) {
		nameB = "d2/other-" + base
	}
	var flags []string
	kind := Pick(r, []string{"fm-extract", "fm-process", "fm-process-inplace", "inplace", "inplace"})
	dataA, dataB := bodyA, bodyB
	switch kind {
	case "fm-extract":
		flags = []string{"--front-matter=extract"}
	case "fm-process":
		flags = []string{"--front-matter=process"}
	case "fm-process-inplace":
		flags = []string{"--front-matter=process", "-i"}
	case "inplace":
		flags = []string{"-i"}
	}
	if strings.HasPrefix(kind, "fm-") {
		dataA = "---\n" + bodyA + "---\n# Title A\n\ntext of the first\n"
		dataB = "---\n" + bodyB + "---\n# Title B\n\ntext of the second, longer than the first one is\n"
	}
	argvA := append(append([]string{}, flags...), exprA, nameA)
	argvB := append(append([]string{}, flags...), exprB, nameB)
	return &Scenario{Kind: "proc", Argv: argvA,
		Files: []File{{Name: nameA, Data: Bytes(dataA), Mode: 0644}, {Name: nameB, Data: Bytes(dataB), Mode: 0640}},
		Peer:  &Peer{Argv: argvB},
		Meta:  map[string]any{"sub": "peers", "kind": kind, "gate_pick": r.Intn(1000), "tmp_other": false},
		TmpOther: r.Chance(1, 5)}
}

// resolveGate fixes where the first process of a two-process scenario parks: the gate_pick-th step boundary
// of its own run alone (a site first, then one of its occurrences: a step that repeats per line does not crowd
// out the rest). A scenario that names its gate already (a replay file) keeps it.
func resolveGate(sc *Scenario, alone *Outcome) *Scenario {
	var steps []Event
	for _, e := range alone.Events {
		if e.Kind == "step" || e.Kind == "stepfile" {
			steps = append(steps, e)
		}
	}
	run := sc.Clone()
	if len(steps) == 0 {
		run.Peer.GateSite, run.Peer.GateOcc = "none", 1
	} else if run.Peer.GateSite == "" {
		var sites []string
		bySite := map[string][]Event{}
		for _, e := range steps {
			if len(bySite[e.Site]) == 0 {
				sites = append(sites, e.Site)
			}
			bySite[e.Site] = append(bySite[e.Site], e)
		}
		pick := sc.MetaInt("gate_pick")
		of := bySite[sites[pick%len(sites)]]
		e := of[(pick/len(sites))%len(of)]
		run.Peer.GateSite, run.Peer.GateOcc = e.Site, e.Occ
	}
	return run
}

// --- judging -------------------------------------------------------------------------

var (
	clockRe   = regexp.MustCompile(`\d\d:\d\d:\d\d`)
	tempRe    = regexp.MustCompile(`(temp|\.yq-tmp-)\d+`)
	sandboxRe = regexp.MustCompile(`(/dev/shm|/[^ ]*\.scratch)/yqsim\.\d+/s\d+`)
	addrRe    = regexp.MustCompile(`0x[0-9a-f]{6,}`)
	goroutRe  = regexp.MustCompile(`goroutine \d+`)
)

func maskStderr(b []byte) string {
	s := clockRe.ReplaceAllString(string(b), "HH:MM:SS")
	s = sandboxRe.ReplaceAllString(s, "SANDBOX")
	s = tempRe.ReplaceAllString(s, "tempN")
	s = addrRe.ReplaceAllString(s, "0xADDR")
	s = goroutRe.ReplaceAllString(s, "goroutine N")
	return s
}

// sameStderr: equal after masking clock, sandbox path, temp names and addresses.
// When both runs were aborted by the Go runtime (a C11 matter: panic or fatal
// error) the dump that follows is the runtime's, not yq's - allocation sizes,
// the goroutine that noticed, GC worker states - and only the kind of abort
// and what yq wrote before it are compared.
func sameStderr(a, b *Outcome) bool {
	ca, _ := a.Crashed()
	cb, _ := b.Crashed()
	if ca != cb {
		return false
	}
	if !ca {
		return maskStderr(a.Stderr) == maskStderr(b.Stderr)
	}
	head := func(o *Outcome) string {
		s := string(o.Stderr)
		cut := len(s)
		for _, m := range []string{"panic: ", "fatal error: ", "runtime: "} {
			if i := strings.Index(s, m); i >= 0 && i < cut {
				cut = i
			}
		}
		return maskStderr([]byte(s[:cut]))
	}
	classA, _ := PanicSite(string(a.Stderr))
	classB, _ := PanicSite(string(b.Stderr))
	return classA == classB && head(a) == head(b)
}

// stderrKey: what of stderr must repeat from run to run. For a run that crashed that is the panic class with
// its first yq frame and whatever was printed before the dump (the dump itself lists runtime goroutines,
// which differ with GOMAXPROCS).
func stderrKey(o *Outcome) string {
	crashed, _ := o.Crashed()
	if !crashed {
		return maskStderr(o.Stderr)
	}
	s := string(o.Stderr)
	cut := len(s)
	for _, m := range []string{"panic: ", "fatal error: ", "runtime: "} {
		if i := strings.Index(s, m); i >= 0 && i < cut {
			cut = i
		}
	}
	class, _ := PanicSite(s)
	return "CRASH " + class + " | " + maskStderr([]byte(s[:cut]))
}

var siblingTempRe = regexp.MustCompile(`\.yq-tmp-\d+`)

func filesDigest(m map[string]FileState) string {
	// temp files left behind by a killed run carry random names (drawn by the Go runtime): compare them by content
	var parts []string
	for k, v := range m {
		parts = append(parts, siblingTempRe.ReplaceAllString(k, ".yq-tmp-N")+"="+v.String())
	}
	sort.Strings(parts)
	return strings.Join(parts, ";")
}

func (C18) Judge(c *Ctx, sc *Scenario) []Violation {
	sub := sc.MetaString("sub")
	var vs []Violation
	add := func(oracle, detail, msg string) {
		sig := fmt.Sprintf("%s %s", oracle, detail)
		class := oracle + " " + strings.SplitN(detail, " sched=", 2)[0]
		if strings.HasPrefix(detail, "race at=") {
			class = oracle + " race" // which access pair is reported first varies from run to run
		}
		vs = append(vs, Violation{Prop: "C18", Oracle: oracle, Sig: sig, Class: class, Msg: msg, Probabilistic: strings.HasPrefix(detail, "race at=") || oracle == "O18.1"})
	}
	if !c.Quiet {
		c.Count("subcheck." + sub)
	}
	switch sub {
	case "peers":
		// each process alone, in a sandbox of its own
		aloneA := &Scenario{Kind: "proc", Argv: sc.Argv, Files: sc.Files, TmpOther: sc.TmpOther}
		aloneB := &Scenario{Kind: "proc", Argv: sc.Peer.Argv, Files: sc.Files, TmpOther: sc.TmpOther}
		oa, ob := c.Exec(aloneA), c.Exec(aloneB)
		run := resolveGate(sc, oa)
		kind := sc.MetaString("kind")
		both := c.Exec(run)
		if !c.Quiet {
			c.Count("peers.ran." + both.PeerRan)
			c.Count("peers.kind." + kind)
			c.Count("peers.gate." + run.Peer.GateSite)
			c.Stats.Distinct("peers "+kind+" "+run.Peer.GateSite+"#"+strconv.Itoa(run.Peer.GateOcc)+" "+shortHash(both.Stdout)+shortHash(both.PeerStdout), both.PeerRan == "at-gate")
		}
		at := fmt.Sprintf("kind=%s gate=%s", kind, run.Peer.GateSite)
		desc := fmt.Sprintf("first: yq %s | second (run while the first was parked at %s#%d, %s): yq %s", strings.Join(sc.Argv, " "), run.Peer.GateSite, run.Peer.GateOcc, both.PeerRan, strings.Join(sc.Peer.Argv, " "))
		nameA, nameB := sc.Argv[len(sc.Argv)-1], sc.Peer.Argv[len(sc.Peer.Argv)-1]
		switch {
		case both.TimedOut:
			add("O18.5", "who=first differs=hang "+at, "the first process did not end once the second had run: "+desc)
		case !bytes.Equal(both.Stdout, oa.Stdout) || both.Exit != oa.Exit || both.Signal != oa.Signal:
			add("O18.5", "who=first differs=output "+at, fmt.Sprintf("the first process gave %q / exit %d (stderr %q) with the second one running in between, alone it gives %q / exit %d | %s",
				clip(both.Stdout, 200), both.Exit, clip([]byte(maskStderr(both.Stderr)), 200), clip(oa.Stdout, 200), oa.Exit, desc))
		case !bytes.Equal(both.PeerStdout, ob.Stdout) || both.PeerExit != ob.Exit:
			add("O18.5", "who=second differs=output "+at, fmt.Sprintf("the second process gave %q / exit %d (stderr %q) while the first one was parked, alone it gives %q / exit %d | %s",
				clip(both.PeerStdout, 200), both.PeerExit, clip([]byte(maskStderr(both.PeerStderr)), 200), clip(ob.Stdout, 200), ob.Exit, desc))
		case both.Files[nameA].String() != oa.Files[nameA].String():
			add("O18.5", "who=first differs=file "+at, fmt.Sprintf("%s ends as %s, after the first process alone it is %s | %s", nameA, both.Files[nameA], oa.Files[nameA], desc))
		case both.Files[nameB].String() != ob.Files[nameB].String():
			add("O18.5", "who=second differs=file "+at, fmt.Sprintf("%s ends as %s, after the second process alone it is %s | %s", nameB, both.Files[nameB], ob.Files[nameB], desc))
		case len(both.TmpLeft) != len(oa.TmpLeft)+len(ob.TmpLeft):
			add("O18.5", "differs=tempfiles "+at, fmt.Sprintf("%d temporary files are left, %d and %d after the single runs | %s", len(both.TmpLeft), len(oa.TmpLeft), len(ob.TmpLeft), desc))
		}
	case "determinism":
		runs := []RunOpts{{GOMAXPROCS: 1}, {GOMAXPROCS: 4}, {GOMAXPROCS: 16}}
		var outs []*Outcome
		for i, o := range runs {
			cc := *c
			cc.Slot = c.Slot*3 + 1000 + i // a different sandbox path per repetition
			outs = append(outs, cc.ExecOpts(sc, o))
		}
		base := outs[0]
		if !c.Quiet {
			c.Stats.Distinct("det"+base.TraceSig()+shortHash(base.Stdout), true)
		}
		flags := "-"
		if containsPrefix(sc.Argv, "--front-matter") {
			flags = "front-matter"
		}
		op := "-"
		if strings.Contains(strings.Join(sc.Argv, " "), "filename") || strings.Contains(strings.Join(sc.Argv, " "), "file_name") {
			op = "filename"
		}
		for i, o := range outs[1:] {
			what := ""
			switch {
			case !bytes.Equal(o.Stdout, base.Stdout):
				what = "stdout"
			case o.Exit != base.Exit || o.Signal != base.Signal:
				what = "exit"
			case filesDigest(o.Files) != filesDigest(base.Files):
				what = "files"
			case !sameStderr(o, base):
				what = "stderr"
			case len(o.TmpLeft) != len(base.TmpLeft):
				what = "tempfiles"
			}
			if what != "" {
				add("O18.1", fmt.Sprintf("differs=%s flags=%s op=%s src=%s", what, flags, op, sc.MetaString("src")),
					fmt.Sprintf("the same invocation gave different %s in run %d (GOMAXPROCS=%d): %q / exit %d  vs  %q / exit %d | stderr %q vs %q | argv=%s", what, i+2, runs[i+1].GOMAXPROCS,
						clip(base.Stdout, 200), base.Exit, clip(o.Stdout, 200), o.Exit, clip([]byte(maskStderr(base.Stderr)), 200), clip([]byte(maskStderr(o.Stderr)), 200), strings.Join(sc.Argv, " ")))
				break
			}
			// the simulator's own determinism: same decisions, same trace
			if o.TraceSig() != base.TraceSig() {
				// The bytes are equal, the order of yq's own reads, writes and steps is not. On the pinned tree this
				// never happens (yq evaluates on one goroutine; the self-test demands identical traces). A yq that
				// has grown goroutines of its own can do its I/O in a different order and still produce the same
				// bytes, which C18 allows: counted, not reported - but faults addressed by occurrence ("third read")
				// no longer land on the same event in a replay of such a tree.
				if !c.Quiet {
					c.Count("probe.event_order_differs_with_equal_outcome")
				}
			}
		}
	case "history":
		lib := sc.Lib
		res := c.W.RunLib(c.W.LibSim, "history", sc, 0, RunOpts{Slot: c.Slot})
		if res.TimedOut || res.Exit != 0 {
			add("O18.2", "crash", fmt.Sprintf("history run ended with exit %d signal %d: %s", res.Exit, res.Signal, firstLines(res.Stderr, 6)))
			return vs
		}
		if len(res.Results) != len(lib.History) {
			harnessPanic("history returned %d results for %d steps", len(res.Results), len(lib.History))
		}
		h := ""
		for step, r := range res.Results {
			job := &lib.Jobs[lib.History[step]]
			wo, we := soloRef(c, job)
			h += shortHash([]byte(r.Out + "\x00" + r.Err))
			if r.Out != wo || r.Err != we {
				add("O18.2", fmt.Sprintf("history api=%s in=%s out=%s", job.API, job.InFmt, job.OutFmt),
					fmt.Sprintf("step %d (job %d: %s %q, decoder slot %d, encoder slot %d) depends on the earlier evaluations: got out=%q err=%q ; alone out=%q err=%q ; history=%v",
						step, lib.History[step], job.API, job.Expr, job.DecSlot, job.EncSlot, clip([]byte(r.Out), 300), r.Err, clip([]byte(wo), 300), we, lib.History[:step+1]))
				break
			}
		}
		if !c.Quiet {
			c.Stats.Distinct("hist"+shortHash([]byte(h)), len(lib.History) >= 2)
			c.Stats.DistinctIn("histories (hash of the result sequence)", shortHash([]byte(h)))
			c.Stats.Add("history_steps", int64(len(lib.History)))
		}
	case "interleave":
		lib := sc.Lib
		res := c.W.RunLib(c.W.LibSim, "interleave", sc, 0, RunOpts{Slot: c.Slot})
		if res.TimedOut || res.Exit != 0 {
			add("O18.3", "crash", fmt.Sprintf("interleaved run ended with exit %d signal %d (timeout=%v): %s", res.Exit, res.Signal, res.TimedOut, firstLines(res.Stderr, 8)))
			return vs
		}
		if len(res.Results) != len(lib.Tasks) {
			harnessPanic("interleave returned %d results for %d tasks", len(res.Results), len(lib.Tasks))
		}
		if !c.Quiet {
			c.Stats.Distinct("il"+res.ScheduleSig, res.Switches > len(lib.Tasks))
			c.Stats.DistinctIn("interleavings (hash of the (task, yield site) sequence)", res.ScheduleSig)
			c.Stats.Add("interleave_yields", res.Yields)
			c.Stats.Add("interleave_task_switches", int64(res.Switches))
			for _, s := range res.Sites {
				k, v, _ := strings.Cut(s, "=")
				n, _ := strconv.Atoi(v)
				c.Stats.Add("site.yield."+k, int64(n))
			}
		}
		for i, r := range res.Results {
			job := &lib.Jobs[lib.Tasks[i]]
			wo, we := soloRef(c, job)
			if r.Out != wo || r.Err != we {
				opClass := "-"
				if strings.Contains(job.Expr, "load") {
					opClass = "load"
				}
				add("O18.3", fmt.Sprintf("interleave op=%s sched=%s", opClass, res.ScheduleSig),
					fmt.Sprintf("task %d (%s %q) returned something else than alone under this schedule: got out=%q err=%q ; alone out=%q err=%q ; switches=%d yields=%d",
						i, job.API, job.Expr, clip([]byte(r.Out), 300), r.Err, clip([]byte(wo), 300), we, res.Switches, res.Yields))
				break
			}
		}
	case "race":
		lib := sc.Lib
		raced := false
		var res *LibResult
		attempts := 1 // every process already repeats the pool in 3 rounds x 2 goroutines x 3 iterations, walking in step
		if c.Quiet {
			attempts = 3 // minimisation and replay try harder before they call a scenario race-free
		}
		for attempt := 0; attempt < attempts && !raced; attempt++ {
			res = c.W.RunLib(c.W.LibRace, "race", sc, 0, RunOpts{Slot: c.Slot, GOMAXPROCS: 4}, "GORACE=halt_on_error=0 exitcode=66")
			if !c.Quiet {
				c.Stats.Add("race_detector_processes", 1)
			}
			raced = bytes.Contains(res.Stderr, []byte("WARNING: DATA RACE"))
			if res.TimedOut || (res.Exit != 0 && res.Exit != 66) {
				add("O18.4", "crash", fmt.Sprintf("free-running tasks ended with exit %d signal %d: %s", res.Exit, res.Signal, firstLines(res.Stderr, 8)))
				return vs
			}
		}
		if !c.Quiet {
			c.Stats.Distinct("race"+shortHash(sc.JSON()), true)
		}
		if raced {
			fn := raceSite(string(res.Stderr))
			add("O18.4", "race at="+fn, fmt.Sprintf("data race between concurrent evaluations on separate evaluators and documents: %s", firstLines(res.Stderr, 14)))
			return vs
		}
		for i, r := range res.Results {
			job := &lib.Jobs[lib.Tasks[i]]
			wo, we := soloRef(c, job)
			if r.Out != wo || r.Err != we {
				add("O18.3", "parallel", fmt.Sprintf("task %d (%s %q) running in parallel returned out=%q err=%q ; alone out=%q err=%q", i, job.API, job.Expr, clip([]byte(r.Out), 300), r.Err, clip([]byte(wo), 300), we))
				break
			}
		}
	}
	return vs
}

func containsPrefix(argv []string, p string) bool {
	for _, a := range argv {
		if strings.HasPrefix(a, p) {
			return true
		}
	}
	return false
}

// raceSite: first yq function named in the first race report.
func raceSite(stderr string) string {
	for _, line := range strings.Split(stderr, "\n") {
		t := strings.TrimSpace(line)
		if strings.Contains(t, "mikefarah/yq/v4/") && strings.HasSuffix(t, ")") {
			fn := t[strings.Index(t, "mikefarah/yq/v4/")+len("mikefarah/yq/v4/"):]
			if i := strings.LastIndex(fn, "("); i > 0 {
				fn = fn[:i]
			}
			return fn
		}
	}
	return "unknown"
}

// genMapOrderScenario aims repetition at the places where Go's randomised map
// iteration could leak into the output (the simulator cannot own that source):
// operators that build or merge maps from ragged rows, variables, key sets.
func genMapOrderScenario(r *Rand) *Scenario {
	g := &DocGen{R: r.Fork("doc"), Plain: true}
	doc := g.Doc(DocID(r, 0, 0))
	rows := vSeq()
	for i, n := 0, r.Range(3, 6); i < n; i++ {
		it := vMap()
		it.Set("k", vStr(Pick(r, wordPool)))
		for _, xk := range []string{"v", "w", "u", "t", "s", "q", "p"} {
			if i == 0 && xk != "v" {
				continue
			}
			if r.Chance(1, 2) {
				it.Set(xk, vInt(r.Range(0, 9)))
			}
		}
		rows.Kids = append(rows.Kids, it)
	}
	doc.Set("e", rows)
	exprs := []string{"delpaths([[\"e\", 0], [\"e\", 1], [\"e\", 2]])", "delpaths([[\"d\", 0], [\"d\", 2], [\"d\", 1]])", "del(.e[0], .e[1])", "delpaths([[\"e\", 0, \"k\"], [\"e\", 1, \"k\"], [\"a\"]])",
		".e | sort_by(.k)", ".e | sort_by(.v) | map(.k)", "[.e[] | .k] | unique", ".e | group_by(.v) | map(length)"}
	if r.Chance(1, 2) {
		// a collection big enough for any batching, chunking or worker threshold, with few distinct keys and unique ids
		big := vSeq()
		for i, n := 0, r.Range(64, 300); i < n; i++ {
			it := vMap()
			it.Set("id", vStr(fmt.Sprintf("n%03d", i)))
			it.Set("k", vStr(Pick(r, []string{"red", "green", "blue"})))
			it.Set("v", vInt(r.Range(0, 3)))
			big.Kids = append(big.Kids, it)
		}
		doc.Set("big", big)
		exprs = []string{".big | sort_by(.k) | map(.id)", ".big | sort_by(.v) | map(.id)", ".big | group_by(.k) | map(map(.id))", ".big | unique_by(.k) | map(.id)", "[.big[] | .k] | unique", ".big | sort_by(.k, .v) | .[0:9] | map(.id)",
			".big | map(select(.v == 1)) | map(.id)", "[.big[] | select(.k == \"red\") | .id]", ".big | group_by(.v) | map(length)", ".big | map(.v) | sort", ".big | sort_by(.k) | reverse | .[0].id", ".big | to_entries | map(.key)", ".big[] |= pick([\"k\", \"id\"])"}
	}
	expr := Pick(r, append(exprs, []string{
		".e | pivot", "[.e[] | keys] | flatten | unique", ".e | group_by(.k)", ".e[] as $i ireduce ({}; . * $i)", ".e | map(to_entries)", ".e | unique_by(.k)",
		".e | map(with_entries(.value |= . + 1))", ".a as $a | .b as $b | .c as $c | .d as $d | [$a, $b, $c, $d]", "sort_keys(..)", ".e | map(keys)", ".e[0] * .e[1] * .e[2]", "[.e[] | to_entries[] | .key] | unique",
		".e | map(pick([\"w\", \"u\", \"t\", \"k\"]))", ".e | (.[0] | keys) as $k | map(pick($k))", ".e | map(omit([\"k\"]))", "to_entries | map(.key)", ".e | pivot | to_entries",
	}...))
	if doc.Get("big") != nil && !strings.Contains(expr, ".big") {
		expr = exprs[r.Intn(len(exprs))]
	}
	out := Pick(r, []string{"-o=json", "-o=yaml", "-o=props", "-o=csv"})
	argv := []string{out, expr, "f1.yaml"}
	if out == "-o=json" {
		argv = []string{out, "-I0", expr, "f1.yaml"}
	}
	return &Scenario{Kind: "proc", Argv: argv, Files: []File{{Name: "f1.yaml", Docs: []string{doc.YAML()}, Mode: 0644}},
		Meta: map[string]any{"expr": expr, "keep_flags": []any{out}}}
}
