package sim

import (
	"encoding/base64"
	"encoding/csv"
	"encoding/json"
	"encoding/xml"
	"fmt"
	"io"
	"net/url"
	"strconv"
	"strings"

	toml "github.com/pelletier/go-toml/v2"
	lua "github.com/yuin/gopher-lua"
)

// genRecords builds a well-formed multi-record input of the format.
func genRecords(r *Rand, format string, fileIndex int) string {
	switch format {
	case "csv", "tsv":
		sep := ","
		if format == "tsv" {
			sep = "\t"
		}
		var b strings.Builder
		b.WriteString(strings.Join([]string{"id", "a", "b", "c"}, sep) + "\n")
		for k, n := 0, r.Range(3, 6); k < n; k++ {
			b.WriteString(strings.Join([]string{DocID(r, fileIndex, k), strconv.Itoa(r.Range(0, 99)), Pick(r, wordPool), Pick(r, []string{"x", "\"q " + sep + " q\"", "", "1.5"})}, sep) + "\n")
		}
		return b.String()
	case "json":
		var b strings.Builder
		for k, n := 0, r.Range(2, 4); k < n; k++ {
			b.WriteString(GenJSONDoc(r.Fork("j"+strconv.Itoa(k)), DocID(r, fileIndex, k), false))
		}
		return b.String()
	case "toml":
		return GenTOML(r, DocID(r, fileIndex, 0)) + "\n[tail]\nlast = \"" + Pick(r, wordPool) + "\"\nn = " + strconv.Itoa(r.Range(0, 9)) + "\n"
	case "lua":
		return GenLua(r, DocID(r, fileIndex, 0))
	case "xml":
		return GenXML(r, DocID(r, fileIndex, 0))
	case "props":
		return "id = " + DocID(r, fileIndex, 0) + "\nservers.0 = alpha\nservers.1 = beta\nname = " + Pick(r, wordPool) + "\n"
	case "base64":
		return base64.StdEncoding.EncodeToString([]byte(DocID(r, fileIndex, 0)+" "+strings.Repeat(Pick(r, wordPool)+" ", r.Range(2, 12)))) + "\n"
	case "uri":
		return url.QueryEscape(DocID(r, fileIndex, 0)+" & "+Pick(r, wordPool)+"/é?=") + "\n"
	}
	return ""
}

// breakRecords damages the input so that a reader of the format should reject it.
func breakRecords(r *Rand, format, text string) string {
	lines := strings.SplitAfter(text, "\n")
	switch format {
	case "csv", "tsv":
		sep := ","
		if format == "tsv" {
			sep = "\t"
		}
		if len(lines) < 3 {
			return text
		}
		k := r.Range(1, len(lines)-2)
		if lines[len(lines)-1] == "" && k >= len(lines)-1 {
			k = len(lines) - 2
		}
		row := strings.TrimSuffix(lines[k], "\n")
		switch r.Intn(4) {
		case 0:
			row += sep + "extra"
		case 1:
			if i := strings.LastIndex(row, sep); i > 0 {
				row = row[:i]
			}
		case 2:
			row = strings.Replace(row, sep, sep+"ba\"re", 1)
		default:
			row = strings.Replace(row, sep, sep+"\"unterminated", 1)
		}
		lines[k] = row + "\n"
		return strings.Join(lines, "")
	case "json":
		// only damage that loses data (an incomplete value): whether a lenient parser may
		// accept a missing colon or a doubled comma is not what C19 is about
		if r.Chance(1, 2) {
			cut := r.Range(len(text)/2, len(text)-2)
			return text[:cut]
		}
		k := r.Intn(len(lines))
		if i := strings.LastIndex(lines[k], "}"); i >= 0 {
			lines[k] = lines[k][:i] + lines[k][i+1:]
		}
		return strings.Join(lines, "")
	case "toml":
		k := r.Intn(len(lines))
		switch r.Intn(4) {
		case 0:
			lines[k] = "[unclosed\n"
		case 1:
			lines[k] = "key = \"unterminated\n"
		case 2:
			lines[k] = "novalue =\n"
		default:
			lines[k] = "a = 1 2\n"
		}
		return strings.Join(lines, "")
	case "props":
		// one parent indexed by position and by name: no tree holds both
		return text + Pick(r, []string{"servers.primary = gamma\n", "servers.x.y = 1\n", "servers.last = z\n"})
	case "base64":
		// a byte outside every base64 alphabet after at least one complete group, or a cut inside a group
		t := strings.TrimRight(text, "\n")
		if len(t) < 12 {
			return text
		}
		if r.Chance(1, 3) {
			cut := 4*r.Range(1, len(t)/4-1) + 1
			return t[:cut] + "\n"
		}
		k := 4 * r.Range(1, len(t)/4-1)
		return t[:k] + Pick(r, []string{"*", "!", "\x00", "%"}) + t[k+1:] + "\n"
	case "uri":
		t := strings.TrimRight(text, "\n")
		k := r.Range(1, len(t)-1)
		return t[:k] + Pick(r, []string{"%zz", "%", "%4", "%g1"}) + "\n"
	case "xml":
		// a file cut short: elements that are never closed (data-losing damage only)
		switch r.Intn(3) {
		case 0:
			return strings.Replace(text, "</root>", "", 1)
		case 1:
			if i := strings.Index(text, "</id>"); i > 0 {
				return text[:i]
			}
			return text[:len(text)/2]
		default:
			cut := r.Range(len(text)/3, len(text)-8)
			return text[:cut]
		}
	case "lua":
		switch r.Intn(3) {
		case 0:
			return strings.Replace(text, "};", "", 1)
		case 1:
			return strings.Replace(text, "return {", "return {{", 1)
		default:
			k := r.Intn(len(lines))
			lines[k] = "\t= = ;\n"
			return strings.Join(lines, "")
		}
	}
	return text
}

// MalformedFor asks an independent reader of the format (not yq) whether the text is malformed.
func MalformedFor(format, text string) bool {
	switch format {
	case "csv", "tsv":
		rd := csv.NewReader(strings.NewReader(text))
		if format == "tsv" {
			rd.Comma = '\t'
		}
		_, err := rd.ReadAll()
		return err != nil
	case "json":
		dec := json.NewDecoder(strings.NewReader(text))
		for {
			var v any
			err := dec.Decode(&v)
			if err == io.EOF {
				return false
			}
			if err != nil {
				return true
			}
		}
	case "toml":
		var v map[string]any
		return toml.Unmarshal([]byte(text), &v) != nil
	case "xml":
		d := xml.NewDecoder(strings.NewReader(text))
		for {
			_, err := d.Token()
			if err == io.EOF {
				return false
			}
			if err != nil {
				return true
			}
		}
	case "props":
		// structural rule, independent of yq: a key path that uses one parent both with numeric and with named children
		kinds := map[string]string{}
		leaf := map[string]bool{}
		bad := false
		for _, line := range strings.Split(text, "\n") {
			kv := strings.SplitN(line, "=", 2)
			if len(kv) != 2 {
				continue
			}
			parts := strings.Split(strings.TrimSpace(kv[0]), ".")
			for i := 1; i < len(parts); i++ {
				parent := strings.Join(parts[:i], ".")
				k := "name"
				if _, err := strconv.Atoi(parts[i]); err == nil {
					k = "index"
				}
				if prev, ok := kinds[parent]; ok && prev != k {
					bad = true
				}
				kinds[parent] = k
			}
			leaf[strings.TrimSpace(kv[0])] = true
		}
		// (a scalar used as a parent, `name = x` with `name.0 = z`, is accepted by yq, which keeps the scalar and
		// drops the other line without a word; that is a matter of the codec (C14), not judged here)
		return bad
	case "base64":
		t := strings.TrimSpace(text)
		_, e1 := base64.StdEncoding.DecodeString(t)
		_, e2 := base64.RawStdEncoding.DecodeString(strings.TrimRight(t, "="))
		_, e3 := base64.URLEncoding.DecodeString(t)
		_, e4 := base64.RawURLEncoding.DecodeString(strings.TrimRight(t, "="))
		return e1 != nil && e2 != nil && e3 != nil && e4 != nil
	case "uri":
		_, err := url.QueryUnescape(strings.TrimSpace(text))
		return err != nil
	case "lua":
		ls := lua.NewState(lua.Options{SkipOpenLibs: true})
		defer ls.Close()
		_, err := ls.LoadString(text)
		return err != nil
	}
	return false
}

var _ = fmt.Sprint
