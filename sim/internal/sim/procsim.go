package sim

import (
	"sync/atomic"
	"bytes"
	"encoding/json"
	"fmt"
	"os"
	"os/exec"
	"path/filepath"
	"regexp"
	"sort"
	"strconv"
	"strings"
	"syscall"
	"time"
)

// World is the simulated environment all runs of one driver process share.
type World struct {
	YQ       string // yq built with -tags verif
	LibSim   string
	LibRace  string
	ShmRoot  string // sandbox root on tmpfs
	DiskRoot string // sandbox root on another file system ("" = none)
	Watchdog time.Duration
	Strace   string // path of strace, "" if unusable
}

const (
	defaultBudget   = 50_000_000
	defaultRlimitAS = 4 << 30
	ExitBudget      = 97
	ExitPoll        = 98
	ExitPlan        = 99
)

type Event struct {
	Seq      int64
	Yields   int64
	Kind     string
	Site     string
	Occ      int
	Decision string
	Info     string
	Snap     string
}

type FileState struct {
	Mode uint32
	Data []byte
	Dir  bool
}

func (f FileState) String() string {
	if f.Dir {
		return "dir"
	}
	return fmt.Sprintf("%04o:%d:%s", f.Mode, len(f.Data), shortHash(f.Data))
}

type Outcome struct {
	SmallDisk bool // the working directory really was a file system of the scenario's capacity
	DiskFree  int64 // free blocks of that file system when the process had ended (kernel's statfs), -1 otherwise
	Exit     int
	Signal   int
	TimedOut bool
	Stdout   []byte
	Stderr   []byte
	Events   []Event
	Files    map[string]FileState
	TmpLeft  []string
	Yields   int64
	Wall     time.Duration
	// the peer process of a two-process scenario
	PeerRan    string // "at-gate" | "after-exit" | ""
	PeerExit   int
	PeerStdout []byte
	PeerStderr []byte
}

// RunOpts are execution details that must NOT influence the outcome
// (the determinism self-test varies them).
type RunOpts struct {
	Slot       int
	GOMAXPROCS int
	NoTrace    bool
}

func modeBits(m os.FileMode) uint32 {
	b := uint32(m.Perm())
	if m&os.ModeSetuid != 0 {
		b |= 04000
	}
	if m&os.ModeSetgid != 0 {
		b |= 02000
	}
	if m&os.ModeSticky != 0 {
		b |= 01000
	}
	return b
}

func fileMode(bits uint32) os.FileMode {
	m := os.FileMode(bits & 0777)
	if bits&04000 != 0 {
		m |= os.ModeSetuid
	}
	if bits&02000 != 0 {
		m |= os.ModeSetgid
	}
	if bits&01000 != 0 {
		m |= os.ModeSticky
	}
	return m
}

type HarnessError struct{ Msg string }

func (e *HarnessError) Error() string { return "harness: " + e.Msg }

func harnessPanic(format string, a ...any) {
	panic(&HarnessError{fmt.Sprintf(format, a...)})
}

var smallDiskUnavailable atomic.Bool

func (w *World) sandbox(slot int) (root string) {
	return filepath.Join(w.ShmRoot, "s"+strconv.Itoa(slot))
}

// Run executes one scenario in a fresh process inside a fresh sandbox.
func (w *World) Run(sc *Scenario, o RunOpts) *Outcome {
	root := w.sandbox(o.Slot)
	work := filepath.Join(root, "work")
	_ = syscall.Unmount(work, syscall.MNT_DETACH) // a small disk left behind by an interrupted run
	_ = os.RemoveAll(root)
	if err := os.MkdirAll(work, 0755); err != nil {
		harnessPanic("mkdir %v", err)
	}
	smallDisk := false
	if sc.DiskKiB > 0 && !smallDiskUnavailable.Load() {
		if err := syscall.Mount("tmpfs", work, "tmpfs", 0, fmt.Sprintf("size=%dk,mode=0755", sc.DiskKiB)); err != nil {
			smallDiskUnavailable.Store(true) // no privilege to mount here: the fault kind is reported as not injected
		} else {
			smallDisk = true
			defer func() { _ = syscall.Unmount(work, syscall.MNT_DETACH) }()
		}
	}
	tmp := filepath.Join(root, "tmp")
	if sc.TmpOther {
		if w.DiskRoot == "" {
			harnessPanic("scenario needs a second file system")
		}
		tmp = filepath.Join(w.DiskRoot, "s"+strconv.Itoa(o.Slot), "tmp")
		_ = os.RemoveAll(tmp)
	}
	if sc.TmpMissing {
		if err := os.MkdirAll(filepath.Dir(tmp), 0755); err != nil {
			harnessPanic("mkdir %v", err)
		}
	} else if err := os.MkdirAll(tmp, 0700); err != nil {
		harnessPanic("mkdir %v", err)
	}
	defer func() {
		_ = os.RemoveAll(root)
		if sc.TmpOther {
			_ = os.RemoveAll(filepath.Dir(tmp))
		}
	}()
	var hardlinks [][2]string
	var fifos []string
	for i := range sc.Files {
		f := &sc.Files[i]
		if f.Missing || f.Name == "-" {
			continue
		}
		p := filepath.Join(work, f.Name)
		if d := filepath.Dir(p); d != work {
			_ = os.MkdirAll(d, 0755)
		}
		if f.Dir {
			if err := os.Mkdir(p, 0755); err != nil {
				harnessPanic("mkdir %v", err)
			}
			continue
		}
		if f.Symlink != "" {
			if err := os.Symlink(f.Symlink, p); err != nil {
				harnessPanic("symlink %v", err)
			}
			continue
		}
		if f.Hardlink != "" {
			hardlinks = append(hardlinks, [2]string{filepath.Join(work, f.Hardlink), p})
			continue
		}
		if f.Fifo {
			if err := syscall.Mkfifo(p, 0644); err != nil {
				harnessPanic("mkfifo %v", err)
			}
			fifos = append(fifos, p)
			data := f.Bytes()
			go func(path string, data []byte) {
				// blocks until yq opens the pipe for reading (or until the driver releases it after the run)
				w, err := os.OpenFile(path, os.O_WRONLY, 0)
				if err != nil {
					return
				}
				_, _ = w.Write(data)
				_ = w.Close()
			}(p, data)
			continue
		}
		if err := os.WriteFile(p, f.Bytes(), 0600); err != nil {
			harnessPanic("write %v", err)
		}
		mode := f.Mode
		if mode == 0 {
			mode = 0644
		}
		if err := os.Chmod(p, fileMode(mode)); err != nil {
			harnessPanic("chmod %v", err)
		}
	}
	for _, hl := range hardlinks {
		if err := os.Link(hl[0], hl[1]); err != nil {
			harnessPanic("link %v", err)
		}
	}
	plan := sc.Plan
	tracePath := filepath.Join(root, "trace.txt")
	if strings.HasPrefix(sc.Strace, "write:") {
		// the injected write fault must land on yq's own writes, not on the trace file
		o.NoTrace = true
	}
	if !o.NoTrace {
		plan.Trace = tracePath
	}
	if plan.Budget == 0 {
		plan.Budget = defaultBudget
	}
	if plan.RlimitAS == 0 {
		plan.RlimitAS = defaultRlimitAS
	}
	gatePath := ""
	if sc.Peer != nil {
		gatePath = filepath.Join(root, "gate")
		if err := syscall.Mkfifo(gatePath, 0600); err != nil {
			harnessPanic("mkfifo %v", err)
		}
		plan.Steps = append(append([]StepFault{}, plan.Steps...), StepFault{Site: sc.Peer.GateSite, Occ: sc.Peer.GateOcc, Action: "gate", Gate: gatePath})
	}
	planPath := filepath.Join(root, "plan.json")
	pdata, _ := json.Marshal(&plan)
	if err := os.WriteFile(planPath, pdata, 0600); err != nil {
		harnessPanic("write plan %v", err)
	}
	stdinPath := "/dev/null"
	var stdinData []byte
	hasStdin := false
	if sc.Stdin != nil {
		stdinData, hasStdin = *sc.Stdin, true
	}
	for i := range sc.Files {
		// a file named "-" is delivered on standard input
		if sc.Files[i].Name == "-" && !sc.Files[i].Missing {
			stdinData, hasStdin = sc.Files[i].Bytes(), true
		}
	}
	if hasStdin {
		stdinPath = filepath.Join(root, "stdin")
		if err := os.WriteFile(stdinPath, stdinData, 0600); err != nil {
			harnessPanic("write stdin %v", err)
		}
	}
	stdin, err := os.Open(stdinPath)
	if err != nil {
		harnessPanic("open stdin %v", err)
	}
	defer stdin.Close()

	bin := w.YQ
	argv := sc.Argv
	if sc.Strace != "" {
		if w.Strace == "" {
			harnessPanic("scenario needs strace")
		}
		sysc := strings.SplitN(sc.Strace, ":", 2)[0]
		argv = append([]string{"-f", "-o", "/dev/null", "-e", "trace=" + sysc, "-e", "inject=" + sc.Strace, w.YQ}, argv...)
		bin = w.Strace
	}
	cmd := exec.Command(bin, argv...)
	cmd.Dir = work
	cmd.Stdin = stdin
	if sc.StdinDelayMs > 0 && hasStdin {
		pr, pw, perr := os.Pipe()
		if perr != nil {
			harnessPanic("pipe %v", perr)
		}
		cmd.Stdin = pr
		defer pr.Close()
		go func(data []byte, d time.Duration) {
			time.Sleep(d)
			_, _ = pw.Write(data)
			_ = pw.Close()
		}(append([]byte{}, stdinData...), time.Duration(sc.StdinDelayMs)*time.Millisecond)
	}
	var so, se bytes.Buffer
	cmd.Stdout = &so
	if sc.StdoutDevFull {
		df, err := os.OpenFile("/dev/full", os.O_WRONLY, 0)
		if err != nil {
			harnessPanic("open /dev/full: %v", err)
		}
		defer df.Close()
		cmd.Stdout = df
	}
	if sc.StdoutCharDev {
		dn, err := os.OpenFile("/dev/null", os.O_WRONLY, 0)
		if err != nil {
			harnessPanic("open /dev/null: %v", err)
		}
		defer dn.Close()
		cmd.Stdout = dn
	}
	cmd.Stderr = &se
	env := []string{
		"PATH=/usr/bin:/bin", "HOME=" + work, "TMPDIR=" + tmp, "TZ=UTC", "LANG=C",
		"GOTRACEBACK=all", // a fatal error may be raised on any goroutine: the dump must include goroutine 1
	}
	if !sc.NoHooks {
		env = append(env, "YQ_VERIF_PLAN="+planPath)
	}
	if o.GOMAXPROCS > 0 {
		env = append(env, "GOMAXPROCS="+strconv.Itoa(o.GOMAXPROCS))
	} else if strings.Contains(sc.Strace, "when=") {
		// keeps the system calls of the single yq goroutine on as few threads as possible
		env = append(env, "GOMAXPROCS=1")
	}
	env = append(env, sc.Env...)
	cmd.Env = env
	cmd.SysProcAttr = &syscall.SysProcAttr{Setpgid: true}
	start := time.Now()
	if err := cmd.Start(); err != nil {
		harnessPanic("start %v", err)
	}
	done := make(chan error, 1)
	go func() { done <- cmd.Wait() }()
	out := &Outcome{SmallDisk: smallDisk, DiskFree: -1}
	runPeer := func(when string) {
		pc := exec.Command(w.YQ, sc.Peer.Argv...)
		pc.Dir = work
		var pso, pse bytes.Buffer
		pc.Stdout, pc.Stderr = &pso, &pse
		pc.Env = append([]string{}, env...)
		for i, e := range pc.Env {
			if strings.HasPrefix(e, "YQ_VERIF_PLAN=") {
				pc.Env[i] = "YQ_VERIF_PLAN=" // the peer runs free of faults and gates
			}
		}
		pc.SysProcAttr = &syscall.SysProcAttr{Setpgid: true}
		perr := pc.Start()
		if perr != nil {
			harnessPanic("start peer %v", perr)
		}
		pdone := make(chan error, 1)
		go func() { pdone <- pc.Wait() }()
		select {
		case perr = <-pdone:
		case <-time.After(20 * time.Second):
			_ = syscall.Kill(-pc.Process.Pid, syscall.SIGKILL)
			<-pdone
			harnessPanic("peer process did not end")
		}
		out.PeerRan = when
		out.PeerStdout, out.PeerStderr = pso.Bytes(), pse.Bytes()
		if perr != nil {
			if ee, ok := perr.(*exec.ExitError); ok {
				out.PeerExit = ee.ExitCode()
			} else {
				harnessPanic("wait peer %v", perr)
			}
		}
	}
	var mainEnded atomic.Bool
	gateDone := make(chan struct{})
	if sc.Peer != nil {
		go func() {
			defer close(gateDone)
			// blocks until the first process parks at the gate (or until the driver opens the other end after its exit)
			g, err := os.OpenFile(gatePath, os.O_WRONLY, 0)
			if err != nil {
				harnessPanic("open gate %v", err)
			}
			if !mainEnded.Load() {
				runPeer("at-gate")
			}
			_ = g.Close() // end of file on the pipe: the first process goes on
		}()
	} else {
		close(gateDone)
	}
	wd := w.Watchdog
	if wd == 0 {
		wd = 20 * time.Second
	}
	if sc.WatchdogS > 0 && w.Watchdog == 0 {
		wd = time.Duration(sc.WatchdogS) * time.Second
	}
	var werr error
	select {
	case werr = <-done:
	case <-time.After(wd):
		out.TimedOut = true
		_ = syscall.Kill(-cmd.Process.Pid, syscall.SIGKILL)
		werr = <-done
	}
	if sc.Peer != nil {
		mainEnded.Store(true)
		if out.PeerRan == "" {
			// the first process ended without parking: release the gate keeper, run the peer now
			if r, err := os.OpenFile(gatePath, os.O_RDONLY|syscall.O_NONBLOCK, 0); err == nil {
				<-gateDone
				_ = r.Close()
			}
		}
		<-gateDone
		if out.PeerRan == "" {
			runPeer("after-exit")
		}
	}
	for _, p := range fifos {
		// release a feeder that is still waiting for a reader (yq never opened the pipe)
		if r, err := os.OpenFile(p, os.O_RDONLY|syscall.O_NONBLOCK, 0); err == nil {
			_ = r.Close()
		}
	}
	out.Wall = time.Since(start)
	out.Stdout = so.Bytes()
	out.Stderr = se.Bytes()
	if werr != nil {
		if ee, ok := werr.(*exec.ExitError); ok {
			ws := ee.Sys().(syscall.WaitStatus)
			if ws.Signaled() {
				out.Signal = int(ws.Signal())
				out.Exit = -1
			} else {
				out.Exit = ws.ExitStatus()
			}
		} else {
			harnessPanic("wait %v", werr)
		}
	}
	if out.Exit == ExitPlan {
		harnessPanic("hook layer rejected the plan: %s", out.Stderr)
	}
	if !o.NoTrace {
		out.Events = parseTrace(tracePath)
		if n := len(out.Events); n > 0 {
			out.Yields = out.Events[n-1].Yields
		}
	}
	out.Files = snapshotDir(work)
	if smallDisk {
		var st syscall.Statfs_t
		if err := syscall.Statfs(work, &st); err != nil {
			harnessPanic("statfs %v", err)
		}
		out.DiskFree = int64(st.Bfree)
	}
	if ents, err := os.ReadDir(tmp); err == nil {
		for _, e := range ents {
			out.TmpLeft = append(out.TmpLeft, e.Name())
		}
	}
	return out
}

func parseTrace(path string) []Event {
	data, err := os.ReadFile(path)
	if err != nil {
		return nil
	}
	var evs []Event
	for _, line := range strings.Split(string(data), "\n") {
		if line == "" {
			continue
		}
		f := strings.Split(line, "\t")
		if len(f) < 8 {
			continue
		}
		seq, _ := strconv.ParseInt(f[0], 10, 64)
		y, _ := strconv.ParseInt(f[1], 10, 64)
		occ, _ := strconv.Atoi(f[4])
		evs = append(evs, Event{Seq: seq, Yields: y, Kind: f[2], Site: f[3], Occ: occ, Decision: f[5], Info: f[6], Snap: f[7]})
	}
	return evs
}

func snapshotDir(dir string) map[string]FileState {
	res := map[string]FileState{}
	_ = filepath.Walk(dir, func(p string, info os.FileInfo, err error) error {
		if err != nil || p == dir {
			return nil
		}
		rel, _ := filepath.Rel(dir, p)
		if info.IsDir() {
			res[rel] = FileState{Dir: true}
			return nil
		}
		if info.Mode()&os.ModeNamedPipe != 0 {
			res[rel] = FileState{Mode: 0, Data: []byte("fifo")}
			return nil
		}
		if info.Mode()&os.ModeSymlink != 0 {
			dest, _ := os.Readlink(p)
			res[rel] = FileState{Mode: 0, Data: []byte("-> " + dest)}
			return nil
		}
		data, _ := os.ReadFile(p)
		res[rel] = FileState{Mode: modeBits(info.Mode()), Data: data}
		return nil
	})
	return res
}

func sortedKeys[V any](m map[string]V) []string {
	ks := make([]string, 0, len(m))
	for k := range m {
		ks = append(ks, k)
	}
	sort.Strings(ks)
	return ks
}

// Fired lists the faults that actually fired in a run, by kind.
func (o *Outcome) Fired() []string {
	var res []string
	for _, e := range o.Events {
		switch {
		case e.Decision == "pass" || e.Decision == "data" || e.Decision == "eof":
		case strings.HasPrefix(e.Decision, "error:"):
			site := e.Site
			if e.Kind == "read" {
				site = strings.SplitN(site, ":", 2)[0]
			}
			res = append(res, e.Kind+"."+site+"."+e.Decision)
		case e.Decision == "kill":
			res = append(res, e.Kind+"."+e.Site+".kill")
		case e.Decision == "panic":
			res = append(res, "yield."+e.Site+".panic")
		case strings.HasPrefix(e.Decision, "closefault"):
			res = append(res, "closefault."+e.Site)
		case e.Decision == "data+eof":
			res = append(res, "read.data+eof")
		}
	}
	return res
}

// TraceSig is a normalised signature of the event sequence (temp-file names
// masked, byte counts kept) used to count distinct executions.
func (o *Outcome) TraceSig() string {
	var b strings.Builder
	for _, e := range o.Events {
		if e.Kind == "read" && e.Decision == "data" {
			b.WriteString("r")
			b.WriteString(e.Info)
			b.WriteByte(';')
			continue
		}
		b.WriteString(e.Kind)
		b.WriteByte(':')
		b.WriteString(maskSite(e.Site))
		b.WriteByte(':')
		b.WriteString(e.Decision)
		if e.Kind == "write" {
			b.WriteByte(':')
			b.WriteString(e.Info)
		}
		b.WriteByte(';')
	}
	fmt.Fprintf(&b, "exit=%d sig=%d", o.Exit, o.Signal)
	return shortHash([]byte(b.String()))
}

// Crashed reports a runtime panic / fatal error / unexpected signal.
func (o *Outcome) Crashed() (bool, string) {
	se := string(o.Stderr)
	if i := strings.Index(se, "panic: "); i >= 0 && strings.Contains(se, "goroutine ") {
		return true, "panic"
	}
	if strings.Contains(se, "fatal error: ") && (strings.Contains(se, "goroutine ") || strings.Contains(se, "runtime")) {
		return true, "fatal"
	}
	if strings.Contains(se, "\ngoroutine ") && strings.Contains(se, "[running]") {
		return true, "dump"
	}
	return false, ""
}

// LibResult mirrors cmd/libsim's output.
type LibResult struct {
	Results []struct {
		Job int    `json:"job"`
		Out string `json:"out"`
		Err string `json:"err"`
	} `json:"results"`
	Yields      int64    `json:"yields"`
	Switches    int      `json:"switches"`
	ScheduleSig string   `json:"schedule_sig"`
	Sites       []string `json:"sites"`
	Trace       []string `json:"trace"`
	// filled by the driver
	Exit     int
	Signal   int
	Stderr   []byte
	TimedOut bool
}

// RunLib executes the libsim worker on a scenario in a fresh process and sandbox.
func (w *World) RunLib(bin, mode string, sc *Scenario, jobIdx int, o RunOpts, extraEnv ...string) *LibResult {
	root := w.sandbox(o.Slot)
	_ = os.RemoveAll(root)
	work := filepath.Join(root, "work")
	if err := os.MkdirAll(work, 0755); err != nil {
		harnessPanic("mkdir %v", err)
	}
	defer os.RemoveAll(root)
	scPath := filepath.Join(root, "scenario.json")
	if err := os.WriteFile(scPath, sc.JSON(), 0600); err != nil {
		harnessPanic("write scenario %v", err)
	}
	args := []string{mode, scPath}
	if mode == "solo" {
		args = append(args, strconv.Itoa(jobIdx))
	}
	cmd := exec.Command(bin, args...)
	cmd.Dir = work
	var so, se bytes.Buffer
	cmd.Stdout = &so
	cmd.Stderr = &se
	env := []string{"PATH=/usr/bin:/bin", "HOME=" + work, "TMPDIR=" + root, "TZ=UTC", "LANG=C"}
	if o.GOMAXPROCS > 0 {
		env = append(env, "GOMAXPROCS="+strconv.Itoa(o.GOMAXPROCS))
	}
	env = append(env, extraEnv...)
	cmd.Env = env
	cmd.SysProcAttr = &syscall.SysProcAttr{Setpgid: true}
	if err := cmd.Start(); err != nil {
		harnessPanic("start libsim %v", err)
	}
	done := make(chan error, 1)
	go func() { done <- cmd.Wait() }()
	res := &LibResult{}
	var werr error
	select {
	case werr = <-done:
	case <-time.After(60 * time.Second):
		res.TimedOut = true
		_ = syscall.Kill(-cmd.Process.Pid, syscall.SIGKILL)
		werr = <-done
	}
	res.Stderr = se.Bytes()
	if werr != nil {
		if ee, ok := werr.(*exec.ExitError); ok {
			ws := ee.Sys().(syscall.WaitStatus)
			if ws.Signaled() {
				res.Signal = int(ws.Signal())
				res.Exit = -1
			} else {
				res.Exit = ws.ExitStatus()
			}
		} else {
			harnessPanic("wait libsim %v", werr)
		}
	}
	if res.Exit == 3 {
		harnessPanic("libsim refused the scenario: %s", se.String())
	}
	if so.Len() > 0 {
		_ = json.Unmarshal(so.Bytes(), res)
	}
	return res
}

var tempNameRe = regexp.MustCompile(`[^ :]*/temp\d+|[^ :]*\.yq-tmp-\d+`)

// maskSite hides the random temp-file names (drawn by the Go runtime, not by the simulator).
func maskSite(site string) string { return tempNameRe.ReplaceAllString(site, "TEMPFILE") }
