package sim

import (
	"bytes"
	"encoding/json"
	"fmt"
	"io"
	"regexp"
	"sort"
	"strconv"
	"strings"

	yaml "gopkg.in/yaml.v3"
)

// C10 — multi-document, multi-file input is processed document by document, in order.
type C10 struct{}

func (C10) ID() string    { return "C10" }
func (C10) Level() string { return "exploration" }

func (C10) Describe() CheckInfo {
	return CheckInfo{
		Rule: "Each evaluation is a seeded history of 1-4 input files x 0-3 documents (YAML pieces with leading separators/comments, comment-only and empty files, JSON value streams, one-document formats in multi-file sequences, one file optionally on stdin) processed by one yq process under a seeded read-chunk schedule. The reference is yq itself in its simplest history: one fresh process per document on a file holding only that document, whole-file reads, di/fi replaced by ground-truth literals; oracles O10.1-O10.7 compare the combined run with the join of the references. Non-trivial = at least two documents or a non-trivial read schedule; distinct = distinct (trace signature, stdout hash).",
		Assumptions: []string{
			"the reference is yq on a single document: a defect that is identical in the one-document run is invisible here (it belongs to the pure properties)",
			"`joined by document separators` is modelled as: `---` between the outputs of consecutive documents that printed something, none with -N, none when the next output already starts with its own separator",
			"expressions are document-local (no load/env/now/line/column)",
		},
		Real:    []string{"yq binary (tag verif) incl. bufio, decoders, evaluator, printer", "kernel file reads of the sandbox files", "stdin as a regular file"},
		Stubbed: []string{"short-read reader under each input stream (chunk schedule, data returned together with EOF)"},
	}
}

func (C10) Generate(c *Ctx, r *Rand, index int) *Scenario {
	sc := &Scenario{Kind: "proc", Meta: map[string]any{}}
	rs := r.Fork("shape")
	if rs.Chance(1, 1500) {
		// a stream long enough to wrap any 16-bit counter: document k holds `n: k`
		n := 65536 + rs.Range(2, 40)
		var b strings.Builder
		for k := 0; k < n; k++ {
			if k > 0 {
				b.WriteString("---\n")
			}
			b.WriteString("n: " + strconv.Itoa(k) + "\n")
		}
		expr := Pick(rs, []string{"[.n, document_index]", "select(document_index == 3) | .n", "select(.n != document_index) | .n"})
		sc.Files = []File{{Name: "long.yaml", Data: Bytes(b.String()), Mode: 0644}}
		sc.Argv = []string{"-o=json", "-I0", expr, "long.yaml"}
		sc.Meta = map[string]any{"variant": "longstream", "expr": expr, "expr_raw": expr, "family": "longstream", "format": "yaml", "docs": n, "freeze_data": true, "keep_flags": []any{"-o=json", "-I0"}}
		sc.WatchdogS = 60
		return sc
	}
	variant := rs.Weighted([]int{60, 12, 14, 10, 6})
	if variant == 4 {
		// split output: the files of the combined run are the files of the per-document runs
		return GenSplitScenario(r, "C10")
	}
	format := "yaml"
	opts := MultiOpts{MaxFiles: 4, MaxDocs: 3, AllowStdin: true, AllowEmpty: true, Format: "yaml"}
	switch variant {
	case 1:
		format = "json"
		opts.Format = "json"
	case 2:
		format = Pick(rs, []string{"props", "csv", "tsv", "xml", "toml", "lua", "lua", "base64", "uri"})
		opts.Format = format
		opts.AllowStdin = false
		opts.MaxFiles = 3
	case 3:
		// single file, single document: eval vs eval-all
		opts.MaxFiles, opts.MaxDocs, opts.AllowEmpty, opts.AllowStdin, opts.Full = 1, 1, false, false, true
	}
	opts.PlainOnly = rs.Chance(1, 3)
	sc.Files = GenMultiFiles(r.Fork("files"), opts)
	if variant != 3 && rs.Chance(1, 12) {
		// one input arrives through a named pipe (as with process substitution): it has no size to stat
		k := rs.Intn(len(sc.Files))
		if sc.Files[k].Name != "-" {
			sc.Files[k].Fifo = true
		}
	}
	var e Expr
	if variant == 2 {
		fi := FormatByName(format)
		e = Pick(rs, []Expr{
			{S: ".", Family: "identity", Preserving: true},
			{S: fi.IDPath, Family: "path", Preserving: true},
			{S: "[" + fi.IDPath + ", @DI@, @FI@, filename]", Family: "provenance"},
			{S: "(" + fi.IDPath + ") = \"x\"", Family: "assign", Preserving: true, Mutating: true},
			{S: "[" + fi.IDPath + "]", Family: "construct"},
		})
		e.Alts = []string{"."}
	} else {
		e = GenExprWhere(r.Fork("expr"), func(e Expr) bool { return !strings.Contains(e.Family, "error") || rs.Chance(1, 3) })
		if rs.Chance(1, 8) {
			e = Expr{S: ".", Family: "identity", Preserving: true, Total: true, Alts: []string{"."}}
		}
	}
	if variant == 0 && rs.Chance(1, 14) {
		// a file loaded for every document: it is the same for each, so the per-document runs are a reference,
		// and whatever the expression does to the loaded tree must not reach the next document
		sc.Files = append(sc.Files, File{Name: "tpl.yaml", Data: Bytes("owners: [root]\nn: 1\nlabels: {app: x}\n"), Mode: 0644})
		e = Pick(rs, []Expr{
			{S: ". as $d | load(\"tpl.yaml\") | .owners += [$d.id]", Family: "load-update"},
			{S: ".tpl = load(\"tpl.yaml\") | .tpl.n += .a", Family: "load-update", Preserving: true, Mutating: true},
			{S: ". as $d | load(\"tpl.yaml\") | .labels.id = $d.id | .n += 1", Family: "load-update"},
			{S: "load(\"tpl.yaml\") * .", Family: "load-update"},
			{S: ".a as $a | load(\"tpl.yaml\") | .n |= . + $a", Family: "load-update"},
			// a loaded (parentless) tree assigned into the document, then results taken from inside it
			{S: ".tpl = load(\"tpl.yaml\") | .tpl.labels", Family: "load-update"},
			{S: ".tpl = load(\"tpl.yaml\") | .tpl.owners[0]", Family: "load-update"},
			{S: ".tpl = load(\"tpl.yaml\") | .tpl.labels | [.app, @DI@, @FI@]", Family: "load-update"},
			{S: ".tpl = load(\"tpl.yaml\") | .tpl | (.n, .labels.app)", Family: "load-update"},
			{S: ".tpl = load(\"tpl.yaml\") | (.tpl.labels | filename)", Family: "load-update"},
			// the document on the left of a merge whose right side comes from elsewhere: the result is still that document
			{S: ". * load(\"tpl.yaml\")", Family: "load-update"},
			{S: ". *+ load(\"tpl.yaml\")", Family: "load-update"},
			{S: ". *= load(\"tpl.yaml\")", Family: "load-update"},
			{S: ". * load(\"tpl.yaml\") | [.n, @DI@, @FI@]", Family: "load-update"},
		})
		e.Alts = []string{"."}
		sc.Meta["extra_file"] = "tpl.yaml"
		if rs.Chance(1, 2) {
			// a null document that is not the first of the run: what a merge makes of it comes from the loaded
			// file alone, its place in the stream is still its own
			for i := range sc.Files {
				f := &sc.Files[i]
				if f.Name == "tpl.yaml" || f.Name == "-" || len(f.Docs) == 0 || !(strings.HasSuffix(f.Name, ".yaml") || strings.HasSuffix(f.Name, ".yml")) {
					continue
				}
				last := f.Docs[len(f.Docs)-1]
				if cls := PieceClass(last, len(f.Docs)-1); !strings.HasSuffix(last, "\n") || strings.HasPrefix(cls, "comment-only") || cls == "blank" {
					continue // a separator after a piece without content does not start a second document
				}
				if i > 0 || rs.Chance(1, 2) {
					f.Docs = append(f.Docs, Pick(rs, []string{"---\n~\n", "---\nnull\n"}))
				}
			}
		}
	}
	if variant == 0 && sc.MetaString("extra_file") == "" && rs.Chance(1, 40) {
		// every document carries a value nested deeper than any fixed number of parent hops
		sc.Files = GenMultiFiles(r.Fork("files-deep"), MultiOpts{MaxFiles: 3, MaxDocs: 2, Format: "yaml", PlainOnly: true})
		depth := rs.Range(110, 170)
		nest := strings.Repeat("{k: ", depth) + "leaf" + strings.Repeat("}", depth)
		for i := range sc.Files {
			for k := range sc.Files[i].Docs {
				if !strings.HasSuffix(sc.Files[i].Docs[k], "\n") {
					sc.Files[i].Docs[k] += "\n"
				}
				sc.Files[i].Docs[k] += "deep: " + nest + "\n"
			}
		}
		e = Pick(rs, []Expr{
			{S: ".deep | .. | select(kind == \"scalar\")", Family: "deep"},
			{S: "[.deep | .. | select(kind == \"scalar\") | [., @DI@, @FI@]]", Family: "deep"},
			{S: ".deep | [.. | select(kind == \"scalar\") | filename]", Family: "deep"},
			{S: ".id, (.deep | .. | select(kind == \"scalar\"))", Family: "deep"},
		})
		e.Alts = []string{"."}
	}
	var argv []string
	if variant == 3 && rs.Chance(1, 2) {
		// O10.6 runs eval-all itself; the scenario stays in sequence mode
	}
	out := "yaml"
	switch {
	case variant == 2:
		out = Pick(rs, []string{"json0", "json0", "yaml", "props", "same", "same", "same"})
		if out == "same" {
			// the format's own encoder (with whatever state it keeps from one document to the next)
			out = format
			if format != "base64" && format != "uri" && rs.Chance(1, 3) {
				out = "auto" // chosen by yq from the first file's extension
			}
		}
	case e.Family == "provenance":
		out = "json0"
	default:
		out = Pick(rs, []string{"yaml", "yaml", "yaml", "yaml", "yaml", "yaml", "json0", "json0", "json0", "json0", "props", "json", "xml", "xml", "lua", "shell", "csv", "tsv"})
	}
	switch out {
	case "yaml":
		if format != "yaml" || rs.Chance(1, 3) {
			argv = append(argv, "-o=yaml")
		}
		if rs.Chance(1, 6) {
			argv = append(argv, "-N")
		}
	case "json0":
		argv = append(argv, "-o=json", "-I0")
	case "json":
		argv = append(argv, "-o=json")
	case "props":
		argv = append(argv, "-o=props")
	case "auto":
		// no -o at all
	case "xml", "lua", "shell", "csv", "tsv", "toml", "base64", "uri":
		// encoders with a narrower domain (and some with state of their own): a result they refuse
		// fails the per-document reference in the same way
		argv = append(argv, "-o="+out)
	}
	if rs.Chance(1, 6) {
		// presentation flags: the same for the combined run and for every per-document reference
		for i, n := 0, rs.Range(1, 2); i < n; i++ {
			argv = append(argv, Pick(rs, []string{"-P", "-I4", "-I1", "-M", "--unwrapScalar=false", "-r", "--string-interpolation=false", "--header-preprocess=false", "--xml-attribute-prefix=_", "--properties-array-brackets", "--lua-unquoted", "--csv-auto-parse", "--xml-skip-proc-inst"}))
		}
	}
	if format == "base64" || format == "uri" {
		argv = append(argv, "-p="+format)
		sc.Meta["keep_flags"] = []any{"-p=" + format}
	}
	if format == "json" {
		for _, f := range sc.Files {
			if f.Name == "-" {
				argv = append(argv, "-p=json")
				sc.Meta["keep_flags"] = []any{"-p=json"}
			}
		}
	}
	sc.Meta["out"] = out
	sc.Meta["format"] = format
	sc.Meta["expr"] = e.Combined()
	sc.Meta["expr_raw"] = e.S
	sc.Meta["family"] = e.Family
	sc.Meta["preserving"] = e.Preserving
	sc.Meta["total"] = e.Total && opts.Full
	alts := make([]any, len(e.Alts))
	for i, a := range e.Alts {
		alts[i] = a
	}
	sc.Meta["expr_alts"] = alts
	argv = append(argv, e.Combined())
	for _, f := range sc.Files {
		if f.Name != sc.MetaString("extra_file") {
			argv = append(argv, f.Name)
		}
	}
	sc.Argv = argv
	rf := r.Fork("sched")
	if rf.Chance(2, 5) {
		sc.Plan.Readers = []ReaderPlan{{Stream: "input", Chunks: genChunks(rf), ErrAt: -1, EOFWithData: rf.Chance(1, 3)}}
		// (a Read that returns (0, nil) is not injected: os.File never does that, so it is not a fault a yq process can meet)
	} else if rf.Chance(1, 6) {
		sc.Plan.Readers = []ReaderPlan{{Stream: "input", ErrAt: -1, EOFWithData: true}}
	}
	return sc
}

// c10Split separates argv into flags, expression and input names using the
// scenario's own record of the expression.
func c10Split(sc *Scenario) (flags []string, names []string) {
	expr := sc.MetaString("expr")
	seen := false
	for _, a := range sc.Argv {
		switch {
		case !seen && a == expr:
			seen = true
		case !seen:
			flags = append(flags, a)
		default:
			names = append(names, a)
		}
	}
	return
}

func stripSepLines(b []byte) []byte {
	var out []byte
	for _, l := range bytes.SplitAfter(b, []byte("\n")) {
		if bytes.Equal(l, []byte("---\n")) || bytes.Equal(l, []byte("---")) {
			continue
		}
		out = append(out, l...)
	}
	return out
}

var inlineCommentRe = regexp.MustCompile(`\s+#.*$`)

// stripComments removes separator lines, comment lines, trailing comments
// and blank lines: what is left is the data as printed.
var xmlCommentRe = regexp.MustCompile(`(?s)<!--.*?-->`)

func stripComments(b []byte) []byte {
	b = xmlCommentRe.ReplaceAll(b, nil)
	var out []byte
	for _, l := range bytes.Split(b, []byte("\n")) {
		t := bytes.TrimSpace(l)
		if len(t) == 0 || t[0] == '#' || bytes.Equal(t, []byte("---")) {
			continue
		}
		l = inlineCommentRe.ReplaceAll(l, nil)
		out = append(out, bytes.TrimSpace(l)...)
		out = append(out, '\n')
	}
	return out
}

func countYAMLDocs(data []byte) (int, error) {
	dec := yaml.NewDecoder(bytes.NewReader(data))
	n := 0
	for {
		var node yaml.Node
		err := dec.Decode(&node)
		if err == io.EOF {
			return n, nil
		}
		if err != nil {
			return n, err
		}
		n++
	}
}

type c10part struct {
	ref  DocRef
	out  []byte
	exit int
}

func (C10) Judge(c *Ctx, sc *Scenario) []Violation {
	if sc.MetaString("variant") == "longstream" {
		if !containsArg(sc.Argv, "long.yaml") || !containsArg(sc.Argv, sc.MetaString("expr")) || sc.File("long.yaml") == nil {
			return nil // taken apart by the shrinker
		}
		out := c.Exec(sc)
		var vs []Violation
		add := func(detail, msg string) {
			vs = append(vs, Violation{Prop: "C10", Oracle: "O10.4", Sig: "O10.4 provenance longstream " + detail, Class: "O10.4 longstream " + detail, Msg: msg + " | argv=" + strings.Join(sc.Argv, " ")})
		}
		if !c.Quiet {
			c.Count("probe.stream_of_more_than_65536_documents")
		}
		if out.TimedOut || out.Exit != 0 {
			add("run", fmt.Sprintf("a stream of `n: k` documents did not go through: exit %d timedout=%v %s", out.Exit, out.TimedOut, firstLines(out.Stderr, 2)))
			return vs
		}
		n := 0
		if v, ok := sc.Meta["docs"].(int); ok {
			n = v
		} else if v, ok := sc.Meta["docs"].(float64); ok {
			n = int(v)
		}
		lines := strings.Split(strings.TrimSpace(string(out.Stdout)), "\n")
		switch {
		case strings.HasPrefix(sc.MetaString("expr"), "[.n"):
			if len(lines) != n {
				add("count", fmt.Sprintf("%d documents in, %d results out", n, len(lines)))
				return vs
			}
			for k, l := range lines {
				if l != fmt.Sprintf("[%d,%d]", k, k) {
					add("index", fmt.Sprintf("document %d reports %s", k, l))
					break
				}
			}
		case strings.HasPrefix(sc.MetaString("expr"), "select(document_index == 3)"):
			if len(lines) != 1 || lines[0] != "3" {
				add("select", fmt.Sprintf("select(document_index == 3) over %d documents gives %q", n, clip(out.Stdout, 200)))
			}
		default:
			if strings.TrimSpace(string(out.Stdout)) != "" {
				add("mismatch", fmt.Sprintf("documents whose index is not their position: %q", clip(out.Stdout, 200)))
			}
		}
		return vs
	}
	if sc.MetaString("variant") == "split" {
		problems, nontrivial := JudgeSplit(c, sc)
		if !c.Quiet {
			c.Count("family.split-output")
			if nontrivial {
				c.Count("probe.split_files_compared_with_per_document_runs")
			}
		}
		var vs []Violation
		for _, p := range problems {
			vs = append(vs, Violation{Prop: "C10", Oracle: "O10.8", Sig: "O10.8 split " + p[0], Class: "O10.8 split " + p[0], Msg: p[1] + " | argv=" + strings.Join(sc.Argv, " ")})
		}
		return vs
	}
	format := sc.MetaString("format")
	outFmt := outFormatOf(sc.Argv, sc.Files)
	raw := sc.MetaString("expr_raw")
	family := sc.MetaString("family")
	preserving := sc.MetaBool("preserving")
	flags, names := c10Split(sc)
	// files in argument order
	var files []File
	for _, n := range names {
		if f := sc.File(n); f != nil {
			files = append(files, *f)
		}
	}
	layout := LayoutOf(files, format)
	noSep := containsArg(flags, "-N")

	combined := c.Exec(sc)
	var vs []Violation
	exprKind := "constructed"
	if preserving {
		exprKind = "preserving"
	}
	add := func(oracle, detail, cls, msg string) {
		sig := fmt.Sprintf("%s %s class=%s expr=%s family=%s in=%s out=%s", oracle, detail, cls, exprKind, family, format, outFmt)
		vs = append(vs, Violation{Prop: "C10", Oracle: oracle, Sig: sig, Class: oracle + " " + detail + " class=" + cls,
			Msg: msg + " | argv=" + strings.Join(sc.Argv, " ")})
	}
	if combined.TimedOut || combined.Exit == ExitBudget || combined.Exit == ExitPoll {
		if ExplainedByCrossProduct(c, sc, names) {
			return vs // eval-all over three or more documents: results multiply, see crossproduct.go
		}
		add("O10.0", "hang", "-", "combined run did not terminate")
		return vs
	}
	if crashed, how := combined.Crashed(); crashed || combined.Signal != 0 {
		add("O10.0", "crash="+how, "-", "combined run crashed: "+firstLines(combined.Stderr, 5))
		return vs
	}
	nontrivial := len(layout) >= 2 || len(sc.Plan.Readers) > 0
	if !c.Quiet {
		c.Stats.Distinct(combined.TraceSig()+shortHash(combined.Stdout), nontrivial)
		c.Stats.Add("documents", int64(len(layout)))
		for _, d := range layout {
			c.Count("docclass." + d.Class)
		}
		c.Count("format." + format)
		c.Count("family." + family)
		for _, e := range combined.Events {
			if e.Decision == "data+eof" {
				c.Count("probe.data_returned_with_EOF")
				break
			}
		}
	}

	// O10.5 schedule transparency
	if len(sc.Plan.Readers) > 0 {
		whole := sc.Clone()
		whole.Plan.Readers = nil
		w := c.Exec(whole)
		if !bytes.Equal(w.Stdout, combined.Stdout) || w.Exit != combined.Exit || (len(w.Stderr) == 0) != (len(combined.Stderr) == 0) {
			add("O10.5", "schedule", "-", fmt.Sprintf("output depends on how the input bytes arrive: chunked exit=%d stdout=%q ; whole-file exit=%d stdout=%q ; stderr chunked=%q", combined.Exit, clip(combined.Stdout, 200), w.Exit, clip(w.Stdout, 200), clip(combined.Stderr, 200)))
		}
		if !c.Quiet {
			c.Count("probe.short_read_schedule_compared")
		}
	}

	if len(layout) == 0 {
		return vs // no document at all: nothing to join (yq then evaluates the expression on a null input)
	}

	// per-document references
	var parts []c10part
	failedAt := -1
	for k, d := range layout {
		argv := append(append([]string{}, flags...), SoloExpr(raw, d.FileIndex, d.DocIndex), d.Name)
		solo := SoloText(d.Piece, d.DocIndex)
		if format != "yaml" {
			solo = d.Piece
		}
		refFiles := []File{{Name: d.Name, Data: Bytes(solo), Mode: 0644}}
		if x := sc.File(sc.MetaString("extra_file")); x != nil && sc.MetaString("extra_file") != "" {
			refFiles = append(refFiles, *x)
		}
		ref := c.Ref(argv, refFiles, nil)
		if crashed, _ := ref.Crashed(); crashed || ref.TimedOut {
			// the single-document run itself crashes: not a C10 matter
			return vs
		}
		parts = append(parts, c10part{ref: d, out: ref.Stdout, exit: ref.Exit})
		if ref.Exit != 0 {
			failedAt = k
			break
		}
	}
	// expected output
	var expected []byte
	var segEnd []int
	sepFree := outFmt != "yaml"
	printed := false
	for _, p := range parts {
		if len(p.out) > 0 {
			if printed && !sepFree && !noSep && !bytes.HasPrefix(p.out, []byte("---\n")) {
				expected = append(expected, "---\n"...)
			}
			expected = append(expected, p.out...)
			printed = true
		}
		segEnd = append(segEnd, len(expected))
	}
	wantExit0 := failedAt < 0
	firstDiffClass := func() string {
		n := len(expected)
		if len(combined.Stdout) < n {
			n = len(combined.Stdout)
		}
		off := n
		for i := 0; i < n; i++ {
			if expected[i] != combined.Stdout[i] {
				off = i
				break
			}
		}
		for k, e := range segEnd {
			if off < e {
				return parts[k].ref.Class
			}
		}
		return parts[len(parts)-1].ref.Class
	}
	if (combined.Exit == 0) != wantExit0 {
		cls := "-"
		if failedAt >= 0 {
			cls = parts[failedAt].ref.Class
		}
		add("O10.1", fmt.Sprintf("exit combined=%d want0=%v", combined.Exit, wantExit0), cls,
			fmt.Sprintf("exit status differs from the per-document runs: combined exit %d (%s), per-document runs %s", combined.Exit, firstLines(combined.Stderr, 2), exitsOf(parts)))
	} else if !bytes.Equal(combined.Stdout, expected) {
		oracle := "O10.1"
		if !sepFree {
			oracle = "O10.2"
		}
		diff := "content"
		if !sepFree && bytes.Equal(stripSepLines(combined.Stdout), stripSepLines(expected)) {
			diff = "separators-only"
		} else if bytes.Equal(stripComments(combined.Stdout), stripComments(expected)) {
			diff = "comments-only"
		} else if outFmt == "xml" && bytes.Equal(squeeze(stripComments(combined.Stdout)), squeeze(stripComments(expected))) {
			// XML scalars are printed without a newline: where a comment lands also decides where lines break
			diff = "comments-only"
		}
		if diff == "content" && readsComments(raw) {
			// head_comment / line_comment / foot_comment as getters turn comment placement into content: the
			// position-dependent attachment of comments (known finding) then shows up in the values
			diff = "comment-getter"
		}
		// (whether a comment only moved or was also lost/duplicated is not told apart: which comments an encoder
		// prints for a document depends on the document's position in many ways - leading content vs head comment
		// of the first key vs foot comment of the previous document - so no strict rule could be held; a duplicated
		// or lost comment that does NOT depend on position is caught by C18 O18.2, where the reference is exact)
		add(oracle, "diff="+diff, firstDiffClass(),
			fmt.Sprintf("combined output is not the join of the per-document outputs:\n--- combined ---\n%s\n--- expected ---\n%s", clip(combined.Stdout, 600), clip(expected, 600)))
	}

	// O10.3 conservation / order / exactly-once of attributable ids
	if wantExit0 && combined.Exit == 0 {
		var want []string
		for _, p := range parts {
			want = append(want, idRe.FindAllString(string(p.out), -1)...)
		}
		got := idRe.FindAllString(string(combined.Stdout), -1)
		if strings.Join(want, ",") != strings.Join(got, ",") {
			add("O10.3", "ids", "-", fmt.Sprintf("documents lost, duplicated or reordered: ids in output %v, expected %v", got, want))
		}
	}

	// O10.4 provenance truth, independent of the references
	if family == "provenance" && outFmt == "json0" && combined.Exit == 0 {
		truth := map[string]DocRef{}
		for _, d := range layout {
			if d.ID != "" {
				truth[d.ID] = d
			}
		}
		for _, line := range strings.Split(strings.TrimSpace(string(combined.Stdout)), "\n") {
			if line == "" {
				continue
			}
			id, di, fi, fn, ok := parseProvenance(line)
			if !ok {
				continue
			}
			d, known := truth[id]
			if !known {
				continue
			}
			if di != d.DocIndex || fi != d.FileIndex || fn != d.Name {
				add("O10.4", "provenance", d.Class, fmt.Sprintf("document %s is document %d of file %d (%s) but yq reports di=%d fi=%d filename=%s", id, d.DocIndex, d.FileIndex, d.Name, di, fi, fn))
				break
			}
			if !c.Quiet {
				c.Count("probe.provenance_records_checked")
			}
		}
	}

	// O10.4 in eval-all mode: `[.id, di, fi, filename]` collects one flat array, four entries per document
	if raw == "[.id, @DI@, @FI@, filename]" && outFmt == "json0" && combined.Exit == 0 && len(files) > 0 {
		ea := sc.Clone()
		ea.Plan.Readers = nil
		ea.Argv = append([]string{"ea"}, sc.Argv...)
		o := c.Exec(ea)
		var flat []any
		if o.Exit == 0 && json.Unmarshal(bytes.TrimSpace(o.Stdout), &flat) == nil && len(flat)%4 == 0 {
			truth := map[string]DocRef{}
			for _, d := range layout {
				if d.ID != "" {
					truth[d.ID] = d
				}
			}
			for k := 0; k+3 < len(flat); k += 4 {
				id, _ := flat[k].(string)
				d, known := truth[id]
				if !known {
					continue
				}
				di, ok1 := flat[k+1].(float64)
				fi, ok2 := flat[k+2].(float64)
				fn, _ := flat[k+3].(string)
				if !ok1 || !ok2 || int(di) != d.DocIndex || int(fi) != d.FileIndex || fn != d.Name {
					add("O10.4", "provenance mode=ea", d.Class, fmt.Sprintf("eval-all: document %s is document %d of file %d (%s) but yq reports di=%v fi=%v filename=%v", id, d.DocIndex, d.FileIndex, d.Name, flat[k+1], flat[k+2], flat[k+3]))
					break
				}
			}
			if !c.Quiet {
				c.Count("probe.provenance_checked_in_eval_all")
			}
		}
	}

	// O10.4 in eval-all mode with the operators at top level: one result per document, in order
	if raw == "[.id, @DI@, @FI@, filename]" && outFmt == "json0" && combined.Exit == 0 && len(layout) > 0 {
		allHaveID := true
		for _, d := range layout {
			if d.ID == "" {
				allHaveID = false
			}
		}
		if allHaveID {
			for _, probe := range []string{"filename", "fi", "di"} {
				ea := sc.Clone()
				ea.Plan.Readers = nil
				var argv []string
				for _, a := range sc.Argv {
					if a == sc.MetaString("expr") {
						a = probe
					}
					argv = append(argv, a)
				}
				ea.Argv = append([]string{"ea"}, argv...)
				o := c.Exec(ea)
				if o.Exit != 0 {
					continue
				}
				var want []string
				for _, d := range layout {
					switch probe {
					case "filename":
						want = append(want, jsonStr(d.Name))
					case "fi":
						want = append(want, fmt.Sprint(d.FileIndex))
					case "di":
						want = append(want, fmt.Sprint(d.DocIndex))
					}
				}
				got := strings.Split(strings.TrimSpace(string(o.Stdout)), "\n")
				for k := range got {
					got[k] = strings.Trim(got[k], "\"") // -r prints strings unquoted
				}
				for k := range want {
					want[k] = strings.Trim(want[k], "\"")
				}
				if strings.Join(got, ",") != strings.Join(want, ",") {
					add("O10.4", "provenance mode=ea op="+probe, layout[0].Class, fmt.Sprintf("eval-all `%s` reports %v for documents whose true values are %v", probe, got, want))
					break
				}
			}
			if !c.Quiet {
				c.Count("probe.provenance_top_level_eval_all")
			}
		}
	}

	// O10.6 eval-all agrees with eval on a single-document input
	if sc.MetaBool("total") && len(layout) == 1 && len(files) == 1 && combined.Exit == 0 && hasFullSchema(layout[0].Piece) && !strings.HasPrefix(layout[0].Class, "comment-only") && layout[0].Class != "blank" {
		ea := sc.Clone()
		ea.Plan.Readers = nil
		ea.Argv = append([]string{"ea"}, sc.Argv...)
		o := c.Exec(ea)
		if !bytes.Equal(o.Stdout, combined.Stdout) || o.Exit != combined.Exit {
			add("O10.6", "eval-all", layout[0].Class, fmt.Sprintf("eval-all and eval disagree on a single-document input: eval exit=%d %q ; eval-all exit=%d %q %s", combined.Exit, clip(combined.Stdout, 300), o.Exit, clip(o.Stdout, 300), firstLines(o.Stderr, 2)))
		}
		if !c.Quiet {
			c.Count("probe.eval_all_vs_eval_compared")
		}
	}

	// O10.7 identity: N documents in, N documents out (independent splitter)
	if raw == "." && format == "yaml" && outFmt == "yaml" && !noSep && combined.Exit == 0 {
		nin := 0
		okIn := true
		for _, f := range files {
			n, err := countYAMLDocs(f.Bytes())
			if err != nil {
				okIn = false
			}
			nin += n
		}
		if okIn {
			for _, mode := range []string{"eval", "ea"} {
				outb := combined.Stdout
				if mode == "ea" {
					ea := sc.Clone()
					ea.Plan.Readers = nil
					ea.Argv = append([]string{"ea"}, sc.Argv...)
					o := c.Exec(ea)
					if o.Exit != 0 {
						continue
					}
					outb = o.Stdout
				}
				nout, err := countYAMLDocs(outb)
				if err != nil || nout != nin {
					add("O10.7", "doccount mode="+mode, firstNonPlain(layout), fmt.Sprintf("identity over %d input documents gives %d output documents (%v) in %s mode:\n%s", nin, nout, err, mode, clip(outb, 500)))
				}
			}
			if !c.Quiet {
				c.Count("probe.identity_document_count_checked")
			}
		}
	}
	return vs
}

func firstNonPlain(layout []DocRef) string {
	for _, want := range []string{"comments-then-separator", "comment-only-mid", "comment-only-first", "blank"} {
		for _, d := range layout {
			if strings.HasPrefix(d.Class, want) {
				return want
			}
		}
	}
	for _, d := range layout {
		if d.Class != "plain" {
			return d.Class
		}
	}
	return "plain"
}

func exitsOf(parts []c10part) string {
	var s []string
	for _, p := range parts {
		s = append(s, fmt.Sprintf("f%dd%d:%d", p.ref.FileIndex, p.ref.DocIndex, p.exit))
	}
	return strings.Join(s, " ")
}

func clip(b []byte, n int) string {
	if len(b) > n {
		return string(b[:n]) + "…"
	}
	return string(b)
}

func parseProvenance(line string) (id string, di, fi int, fn string, ok bool) {
	var arr []any
	if err := json.Unmarshal([]byte(line), &arr); err == nil && len(arr) == 4 {
		id, _ = arr[0].(string)
		d, ok1 := arr[1].(float64)
		f, ok2 := arr[2].(float64)
		fn, _ = arr[3].(string)
		return id, int(d), int(f), fn, ok1 && ok2
	}
	var m map[string]any
	if err := json.Unmarshal([]byte(line), &m); err == nil {
		id, _ = m["id"].(string)
		d, ok1 := m["di"].(float64)
		f, ok2 := m["fi"].(float64)
		fn, _ = m["fn"].(string)
		return id, int(d), int(f), fn, ok1 && ok2
	}
	return "", 0, 0, "", false
}

// outFormatOf derives the effective output format from the arguments (the
// shrinker may drop flags, so the generator's note is not trusted):
// "yaml", "json0" (json with -I0), "json", "props" or another format name.
func outFormatOf(argv []string, files []File) string {
	out := ""
	indent0 := false
	for _, a := range argv {
		switch {
		case strings.HasPrefix(a, "-o="):
			out = strings.TrimPrefix(a, "-o=")
		case a == "-I0" || a == "-I=0":
			indent0 = true
		}
	}
	if out == "" || out == "auto" || out == "a" {
		out = "yaml"
		for _, a := range argv {
			if strings.HasPrefix(a, "-") {
				continue
			}
			found := false
			for _, f := range files {
				if f.Name == a {
					found = true
				}
			}
			if !found {
				continue
			}
			if i := strings.LastIndex(a, "."); i >= 0 {
				switch ext := strings.ToLower(a[i+1:]); ext {
				case "yaml", "yml":
					out = "yaml"
				case "json":
					out = "json"
				case "properties":
					out = "props"
				case "csv", "tsv", "xml", "toml", "lua":
					out = ext
				}
			}
			break
		}
	}
	switch out {
	case "y", "yml":
		out = "yaml"
	case "j":
		out = "json"
	case "p", "properties":
		out = "props"
	}
	if out == "json" && indent0 {
		return "json0"
	}
	return out
}

func squeeze(b []byte) []byte { return bytes.Join(bytes.Fields(b), nil) }

// hasFullSchema: the document still carries every schema key (the shrinker may have removed lines,
// and a traversal of a missing key is exactly what `total` excludes).
func hasFullSchema(piece string) bool {
	for _, k := range []string{"id:", "a:", "b:", "c:", "d:", "e:", "f:", "g:", "x:", "y:", "z:"} {
		found := false
		for _, l := range strings.Split(piece, "\n") {
			qk := "\"" + strings.TrimSuffix(k, ":") + "\":"
			if strings.HasPrefix(strings.TrimSpace(l), k) || strings.HasPrefix(strings.TrimSpace(l), qk) || strings.Contains(l, "{"+k) || strings.Contains(l, ", "+k) || strings.Contains(l, "{"+qk) || strings.Contains(l, ", "+qk) {
				found = true
				break
			}
		}
		if !found {
			return false
		}
	}
	return true
}

var anyCommentRe = regexp.MustCompile(`(?s)<!--(.*?)-->|(?m)#[^\n]*$`)

// commentBag: the sorted multiset of comment texts of an output (YAML/props `# ...`, XML `<!-- ... -->`).
func commentBag(b []byte) string {
	var texts []string
	for _, m := range anyCommentRe.FindAll(b, -1) {
		t := strings.TrimSpace(strings.Trim(strings.TrimPrefix(strings.TrimSuffix(string(m), "-->"), "<!--"), "# \t"))
		t = strings.ReplaceAll(t, "$yqDocSeparator$", "")
		// word level: encoders join or split comments (`# a b` vs `# a` + `# b`), which is placement, not loss
		for _, w := range strings.Fields(t) {
			w = strings.Trim(w, "#")
			if w != "" {
				texts = append(texts, w)
			}
		}
	}
	sort.Strings(texts)
	return strings.Join(texts, "\x00")
}
