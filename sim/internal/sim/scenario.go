package sim

import (
	"crypto/sha1"
	"encoding/base64"
	"encoding/hex"
	"encoding/json"
	"unicode/utf8"
)

// Bytes is file content that stays readable in replay files: valid UTF-8
// without NUL is stored as a JSON string, anything else as {"b64": ...}.
type Bytes []byte

func (b Bytes) MarshalJSON() ([]byte, error) {
	if utf8.Valid(b) {
		ok := true
		for _, c := range b {
			if c == 0 {
				ok = false
				break
			}
		}
		if ok {
			return json.Marshal(string(b))
		}
	}
	return json.Marshal(map[string]string{"b64": base64.StdEncoding.EncodeToString(b)})
}

func (b *Bytes) UnmarshalJSON(data []byte) error {
	var s string
	if err := json.Unmarshal(data, &s); err == nil {
		*b = Bytes(s)
		return nil
	}
	var m map[string]string
	if err := json.Unmarshal(data, &m); err != nil {
		return err
	}
	d, err := base64.StdEncoding.DecodeString(m["b64"])
	*b = d
	return err
}

// File is one entry of the sandbox working directory.
type File struct {
	Name string `json:"name"`
	// Docs, when non-empty, are the pieces Data is the concatenation of
	// (documents with their separators); the shrinker drops pieces.
	Docs     []string `json:"docs,omitempty"`
	Data     Bytes    `json:"data"`
	Mode     uint32   `json:"mode"`
	Symlink  string   `json:"symlink,omitempty"`  // a symbolic link with this (possibly relative) destination
	Hardlink string   `json:"hardlink,omitempty"` // a second hard link to the named file of the sandbox
	Fifo     bool     `json:"fifo,omitempty"`     // a named pipe; the driver feeds the data into it
	Dir      bool     `json:"dir,omitempty"`      // a directory in place of a file
	Missing  bool     `json:"missing,omitempty"`  // not created at all
}

func (f *File) Bytes() []byte {
	if len(f.Docs) > 0 {
		var out []byte
		for _, d := range f.Docs {
			out = append(out, d...)
		}
		return out
	}
	return f.Data
}

// StepFault, ReaderPlan, WriterPlan mirror pkg/verifhook's plan format.
type StepFault struct {
	Site   string `json:"site"`
	Occ    int    `json:"occ"`
	Action string `json:"action"`
	Errno  string `json:"errno,omitempty"`
	Keep   int64  `json:"keep,omitempty"`
	Gate   string `json:"gate,omitempty"`
}

// Peer is a second yq process that shares the working directory and TMPDIR of the scenario's process.
// The simulator decides the interleaving of the two: the first process parks at the GatePick-th step
// boundary of its own run (counted over its step events; 0 = the first), the peer then runs from start
// to end, and the first process goes on. If the first process ends without reaching the gate the peer runs after it.
type Peer struct {
	Argv     []string `json:"argv"`
	GateSite string   `json:"gate_site"`
	GateOcc  int      `json:"gate_occ"`
}

type ReaderPlan struct {
	Stream      string `json:"stream"`
	Name        string `json:"name"`
	Occ         int    `json:"occ"`
	Chunks      []int  `json:"chunks,omitempty"`
	ErrAt       int64  `json:"err_at"`
	Errno       string `json:"errno,omitempty"`
	EOFWithData bool   `json:"eof_with_data,omitempty"`
	ZeroEvery   int    `json:"zero_every,omitempty"`
}

type WriterPlan struct {
	Stream string `json:"stream"`
	FailAt int64  `json:"fail_at"`
	Errno  string `json:"errno,omitempty"`
	KillAt int64  `json:"kill_at"`
}

type Plan struct {
	Trace    string       `json:"trace,omitempty"`
	Watch    []string     `json:"watch,omitempty"`
	Budget   int64        `json:"budget,omitempty"`
	RlimitAS uint64       `json:"rlimit_as,omitempty"`
	Steps    []StepFault  `json:"steps,omitempty"`
	Readers  []ReaderPlan `json:"readers,omitempty"`
	Writers  []WriterPlan `json:"writers,omitempty"`
	// runtime failure (panic) at the PanicAt-th yield point of site PanicSite; deferred functions run
	PanicAt   int64  `json:"panic_at,omitempty"`
	PanicSite string `json:"panic_site,omitempty"`
}

func (p *Plan) HasFault() bool {
	if len(p.Steps) > 0 || len(p.Writers) > 0 || p.PanicAt > 0 {
		return true
	}
	for _, r := range p.Readers {
		if r.ErrAt >= 0 {
			return true
		}
	}
	return false
}

// Scenario is one simulated run written out as explicit data. Execution is
// a pure function of the scenario and the code under test; the seed is only
// a compact name for it.
type Scenario struct {
	Prop  string   `json:"property"`
	Kind  string   `json:"kind"` // "proc" | "lib"
	Seed  uint64   `json:"seed"`
	Index int      `json:"index"`
	Argv  []string `json:"argv,omitempty"`
	Files []File   `json:"files,omitempty"`
	// Stdin: nil = /dev/null
	Stdin    *Bytes `json:"stdin,omitempty"`
	// the working directory is a file system of its own with this capacity (a real tmpfs mount): room runs out
	// for real, and the code under test can ask how much is left. 0 = the shared sandbox file system
	DiskKiB int `json:"disk_kib,omitempty"`
	// standard input is a pipe whose writer stays silent for this long before it delivers everything
	// (a slow producer: the one place where real time passes, decided by the scenario)
	StdinDelayMs int `json:"stdin_delay_ms,omitempty"`
	TmpOther bool   `json:"tmp_other_fs,omitempty"`
	// TmpMissing: TMPDIR names a directory that does not exist yet (yq creates it)
	TmpMissing bool     `json:"tmp_missing,omitempty"`
	Env        []string `json:"env,omitempty"`
	Plan       Plan     `json:"plan"`
	// WatchdogS overrides the wall-clock watchdog (seconds) for scenarios that are expected to hang
	WatchdogS int `json:"watchdog_s,omitempty"`
	// NoHooks runs the binary without a fault plan (the hooks stay inert): for faults injected purely from outside
	NoHooks bool `json:"no_hooks,omitempty"`
	// StdoutDevFull connects stdout to the real /dev/full (every write fails with ENOSPC in the kernel)
	StdoutDevFull bool `json:"stdout_dev_full,omitempty"`
	// StdoutCharDev connects stdout to a character device (/dev/null), which is what yq takes for a terminal
	// when it decides about colours; what yq prints there is not seen (used with -i, where the target gets the output)
	StdoutCharDev bool `json:"stdout_char_dev,omitempty"`
	// Strace injection (thorough tier): e.g. "renameat:error=EBUSY"
	Strace string `json:"strace,omitempty"`
	// Peer: a second process in the same directories, run while the first is parked at a step boundary
	Peer *Peer `json:"peer,omitempty"`
	// Meta carries what the generator knows and the oracles need.
	Meta map[string]any `json:"meta,omitempty"`
	// Lib is the libsim part (C18 b/c/d).
	Lib *LibScenario `json:"lib,omitempty"`
}

func (s *Scenario) Clone() *Scenario {
	data, _ := json.Marshal(s)
	var c Scenario
	_ = json.Unmarshal(data, &c)
	return &c
}

func (s *Scenario) JSON() []byte {
	data, _ := json.MarshalIndent(s, "", " ")
	return data
}

func (s *Scenario) MetaString(k string) string {
	if s.Meta == nil {
		return ""
	}
	v, _ := s.Meta[k].(string)
	return v
}

func (s *Scenario) MetaBool(k string) bool {
	if s.Meta == nil {
		return false
	}
	v, _ := s.Meta[k].(bool)
	return v
}

func (s *Scenario) MetaInt(k string) int {
	if s.Meta == nil {
		return 0
	}
	switch v := s.Meta[k].(type) {
	case float64:
		return int(v)
	case int:
		return v
	}
	return 0
}

func (s *Scenario) SetMeta(k string, v any) {
	if s.Meta == nil {
		s.Meta = map[string]any{}
	}
	s.Meta[k] = v
}

func (s *Scenario) File(name string) *File {
	for i := range s.Files {
		if s.Files[i].Name == name {
			return &s.Files[i]
		}
	}
	return nil
}

func shortHash(b []byte) string {
	sum := sha1.Sum(b)
	return hex.EncodeToString(sum[:8])
}

// LibScenario: a pool of jobs, a history (sequence of job indices run one
// after the other on shared library objects) or a set of concurrent tasks
// with an interleaving choice list.
type LibScenario struct {
	Mode    string   `json:"mode"` // "history" | "interleave" | "race"
	Jobs    []LibJob `json:"jobs"`
	History []int    `json:"history,omitempty"` // job indices, in order
	Tasks   []int    `json:"tasks,omitempty"`   // job indices run concurrently
	Choices []int    `json:"choices,omitempty"` // scheduler choices; exhausted => lowest runnable
	Preempt []int    `json:"preempt,omitempty"` // alternative schedule form: run-to-completion with pre-emption at these global yield counts
	// LazyInit: the expression parser is not initialised up front; every task constructs its
	// evaluator first (which initialises the parser lazily), as a library user's goroutines would
	LazyInit bool `json:"lazy_init,omitempty"`
}

// LibJob is one evaluation through the library API.
type LibJob struct {
	API      string `json:"api"` // "stream" | "all" | "string" | "parse"
	Expr     string `json:"expr"`
	InFmt    string `json:"in"`  // input format name
	OutFmt   string `json:"out"` // output format name
	Input    Bytes  `json:"input"`
	Files    []File `json:"files,omitempty"` // extra files (for load), written into the sandbox cwd
	DecSlot  int    `json:"dec_slot"`        // which pooled decoder instance of that format (history mode)
	EncSlot  int    `json:"enc_slot"`
	Chunks   []int  `json:"chunks,omitempty"`
	ErrAt    int64  `json:"err_at"` // read error offset, <0 none
	LazyInit bool   `json:"lazy_init,omitempty"`
	// SharePrinter (history mode): the printer is a pooled object too, one per encoder instance, given a fresh
	// buffered writer for every evaluation; only for output formats without document separators or leading content
	SharePrinter bool `json:"share_printer,omitempty"`
	NulSep       bool `json:"nul_sep,omitempty"` // records end with NUL (yq -0)
}
