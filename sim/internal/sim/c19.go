package sim

import (
	"bytes"
	"encoding/json"
	"fmt"
	"strconv"
	"strings"
)

// C19 — exit status and output tell the truth about what happened.
type C19 struct{}

func (C19) ID() string    { return "C19" }
func (C19) Level() string { return "exploration" }

func (C19) Describe() CheckInfo {
	return CheckInfo{
		Rule: "Each evaluation is a seeded multi-file/multi-document run of the real yq binary in one of twelve variants: read EIO at byte k of input j (O19.1), write ENOSPC/EIO with partial write at byte k of stdout and the real /dev/full (O19.2), open fault at argument position j: missing file, directory, injected errno (O19.3), decode or evaluation failure generated at document (i,j) (O19.4), fault-free completeness against per-document references (O19.5), -e (O19.6), -n (O19.7), format auto-detection (O19.8), results outside an encoder's domain and -0 (O19.9, fault-free configuration). Fault positions are drawn inside the byte ranges observed in a fault-free traced pre-run. Non-trivial = a fault fired or a failure was generated; distinct = distinct (variant, trace signature, exit).",
		Assumptions: []string{
			"O19.9 (encoder domain, -0) has no fault or schedule in it; it is run as the fault-free configuration and is not claimed to be decided by simulation",
			"prefix rule: after a failure the bytes already written must be a prefix of the fault-free output",
			"-e is judged on the -o=json -I0 rendering of the results, parsed by the driver",
		},
		Real:    []string{"yq binary (tag verif): cobra command layer, exit status, stderr", "kernel open(2) errors for missing files and directories", "/dev/full"},
		Stubbed: []string{"EIO at byte k from the reader wrapper", "ENOSPC/EIO with partial write from the writer wrapper", "errno at input.open"},
	}
}

var c19Variants = []string{"read-fault", "write-fault", "devfull", "open-fault", "decode-fail", "eval-fail", "complete", "exit-status", "null-input", "auto-format", "encoder-domain", "nul-output", "malformed", "usage", "from-file", "split-output", "root-command", "nested-fail"}

var badYAML = []string{"a: [1, 2\n", "\tx: 1\n", "a: b: c\n", "a: \"unterminated\n", "- x\ny: 1\n", "a: *nope\n", "{a: 1\n", "a: 1\n  b: 2\n c: 3\n", "a: !!int notanint\nb: [\n"}

func (C19) Generate(c *Ctx, r *Rand, index int) *Scenario {
	sc := &Scenario{Kind: "proc", Meta: map[string]any{}}
	rs := r.Fork("shape")
	variant := c19Variants[rs.Weighted([]int{16, 14, 3, 12, 9, 8, 8, 10, 4, 6, 5, 5, 10, 4, 4, 4, 4, 5})]
	sc.Meta["variant"] = variant
	if variant == "split-output" {
		ss := GenSplitScenario(r, "C19")
		ss.Meta["variant"] = "split-output"
		return ss
	}
	evalAll := rs.Chance(1, 4)
	format := "yaml"
	if rs.Chance(1, 6) {
		format = "json"
	}
	opts := MultiOpts{MaxFiles: 3, MaxDocs: 3, AllowStdin: true, AllowEmpty: false, Format: format, PlainOnly: rs.Chance(1, 2)}
	e := GenExprWhere(r.Fork("expr"), func(e Expr) bool {
		return !strings.Contains(e.Family, "error") && !strings.Contains(e.Family, "splitdoc") && !readsComments(e.S)
	})
	out := Pick(rs, []string{"json0", "json0", "json0", "yaml", "props"})
	var argv []string
	addOut := func() {
		switch out {
		case "json0":
			argv = append(argv, "-o=json", "-I0")
		case "yaml":
			if format != "yaml" {
				argv = append(argv, "-o=yaml")
			}
		case "props":
			argv = append(argv, "-o=props")
		}
	}
	finish := func(expr string) {
		if evalAll {
			argv = append([]string{"ea"}, argv...)
		}
		if format == "json" {
			argv = append(argv, "-p=json")
		}
		argv = append(argv, expr)
		for _, f := range sc.Files {
			argv = append(argv, f.Name)
		}
		sc.Argv = argv
		sc.Meta["expr"] = expr
		sc.Meta["format"] = format
		sc.Meta["keep_flags"] = []any{"-p=json", "-e", "-n", "-0", "ea", "-o=json", "-I0", "-N"}
	}
	prerun := func() (inBytes map[string]int64, outBytes int64) {
		pre := c.ExecOpts(withReadCounting(sc), RunOpts{})
		c.Count("prerun")
		inBytes = map[string]int64{}
		for _, ev := range pre.Events {
			switch ev.Kind {
			case "read":
				if ev.Decision == "data" || ev.Decision == "data+eof" {
					n, _ := strconv.Atoi(ev.Info)
					inBytes[strings.TrimPrefix(ev.Site, "input:")] += int64(n)
				}
			case "write":
				n, _ := strconv.Atoi(strings.SplitN(ev.Info, "/", 2)[0])
				outBytes += int64(n)
			}
		}
		return
	}
	rf := r.Fork("faults")
	switch variant {
	case "read-fault":
		if rs.Chance(1, 6) {
			// the front matter of a text file is split off through a reader of its own
			g := &DocGen{R: r.Fork("fm"), Plain: true}
			body := g.Doc(DocID(r, 0, 0)).YAML()
			text := "---\n" + body + "---\n# Title\n\nsome text\nmore text\n"
			sc.Files = []File{{Name: "post.md", Data: Bytes(text), Mode: 0644}}
			mode := Pick(rs, []string{"extract", "process"})
			sc.Argv = []string{"--front-matter=" + mode, Pick(rs, []string{".", ".a = 1", ".id"}), "post.md"}
			sc.Meta["expr"] = sc.Argv[1]
			sc.Meta["keep_flags"] = []any{"--front-matter=" + mode}
			rp := ReaderPlan{Stream: "fm", Name: "post.md", ErrAt: int64(rf.Intn(len(text) + 1)), Errno: "EIO"}
			if rf.Chance(2, 3) {
				rp.Chunks = Pick(rf, [][]int{{1}, {1, 2}, {3}, {2}, {7, 1}})
			}
			sc.Plan.Readers = []ReaderPlan{rp}
			return sc
		}
		sc.Files = GenMultiFiles(r.Fork("files"), opts)
		addOut()
		finish(e.Combined())
		in, _ := prerun()
		f := Pick(rf, sc.Files)
		rp := ReaderPlan{Stream: "input", Name: f.Name, ErrAt: biasedOffset(rf, in[f.Name]), Errno: "EIO"}
		if rf.Chance(1, 2) {
			rp.Chunks = genChunks(rf)
		}
		sc.Plan.Readers = []ReaderPlan{rp}
	case "write-fault":
		opts.Big = rs.Chance(1, 3)
		if opts.Big {
			e = Expr{S: Pick(rs, []string{".", ".", ".pad", "[.pad, .id]", ".pad | length"})}
			for _, f := range []string{"-N", "-0", "-r", "-e", "-C", "-C"} {
				if rs.Chance(1, 5) {
					argv = append(argv, f)
				}
			}
		}
		sc.Files = GenMultiFiles(r.Fork("files"), opts)
		addOut()
		finish(e.Combined())
		_, ob := prerun()
		if ob > 0 {
			k := biasedOffset(rf, ob-1)
			sc.Plan.Writers = []WriterPlan{{Stream: "out", FailAt: k, Errno: Pick(rf, []string{"ENOSPC", "EIO", "EDQUOT", "EAGAIN", "EINTR", "EPIPE", "EFBIG"}), KillAt: -1}}
		}
	case "devfull":
		opts.Big = rs.Chance(1, 3)
		if opts.Big {
			e = Expr{S: Pick(rs, []string{".", ".pad", "[.pad, .id]"})}
		}
		sc.Files = GenMultiFiles(r.Fork("files"), opts)
		addOut()
		finish(e.Combined())
		sc.StdoutDevFull = true
	case "open-fault":
		opts.AllowStdin = false
		opts.MaxFiles = 4
		sc.Files = GenMultiFiles(r.Fork("files"), opts)
		addOut()
		finish(e.Combined())
		j := rf.Intn(len(sc.Files))
		kind := Pick(rf, []string{"missing", "missing", "dir", "errno"})
		sc.Meta["open_fault"] = kind
		sc.Meta["open_pos"] = j
		switch kind {
		case "missing":
			sc.Files[j].Missing = true
		case "dir":
			sc.Files[j].Dir = true
		case "errno":
			sc.Plan.Steps = []StepFault{{Site: "input.open", Occ: j + 1, Action: "error", Errno: Pick(rf, []string{"EACCES", "EMFILE", "EIO", "ENFILE"})}}
		}
	case "decode-fail":
		opts.AllowStdin = false
		opts.Format, format = "yaml", "yaml"
		out = "json0"
		sc.Files = GenMultiFiles(r.Fork("files"), opts)
		addOut()
		i := rf.Intn(len(sc.Files))
		j := rf.Intn(len(sc.Files[i].Docs))
		bad := Pick(rf, badYAML)
		sc.Meta["bad"] = bad
		if j > 0 {
			sc.Files[i].Docs[j] = "---\n" + bad
		} else {
			sc.Files[i].Docs[j] = bad
		}
		finish(e.Combined())
	case "eval-fail":
		opts.AllowStdin = false
		opts.Format, format = "yaml", "yaml"
		opts.PlainOnly = true
		out = "json0"
		sc.Files = GenMultiFiles(r.Fork("files"), opts)
		addOut()
		lay := LayoutOf(sc.Files, "yaml")
		d := Pick(rf, lay)
		sc.Meta["bad_id"] = d.ID
		// the other half of the expression must not touch what the failing half selects by
		e = GenExprWhere(r.Fork("expr-ro"), func(e Expr) bool {
			return !e.Mutating && !strings.Contains(e.Family, "error") && !strings.Contains(e.Family, "splitdoc") && !strings.Contains(e.Family, "literal") && !readsComments(e.S)
		})
		// an operation that fails only on the selected document (`error` fires on an empty context too)
		fail := Pick(rf, []string{"(.id - 1)", "(.id | to_number)", "(.id | keys)", "(.id | from_unix)"})
		expr := "(" + e.Combined() + "), (select(.id == \"" + d.ID + "\") | " + fail + ")"
		if rf.Chance(1, 2) {
			expr = "(select(.id == \"" + d.ID + "\") | " + fail + "), (" + e.Combined() + ")"
		}
		sc.Meta["inner_expr"] = e.Combined()
		finish(expr)
	case "complete":
		if rs.Chance(1, 3) {
			format = Pick(rs, []string{"props", "csv", "tsv", "xml", "toml", "lua"})
			opts.Format = format
			opts.AllowStdin = false
			fi := FormatByName(format)
			e = Expr{S: Pick(rs, []string{".", fi.IDPath, "[" + fi.IDPath + "]"})}
		}
		out = Pick(rs, []string{"json0", "props"})
		if format == "xml" || format == "csv" || format == "tsv" {
			out = "json0"
		}
		sc.Files = GenMultiFiles(r.Fork("files"), opts)
		addOut()
		finish(e.Combined())
		if rf.Chance(1, 3) {
			sc.Plan.Readers = []ReaderPlan{{Stream: "input", Chunks: genChunks(rf), ErrAt: -1, EOFWithData: rf.Chance(1, 3)}}
		}
	case "exit-status":
		sc.Files = GenMultiFiles(r.Fork("files"), opts)
		out = "json0"
		argv = append(argv, "-e")
		addOut()
		if rs.Chance(1, 3) {
			// the status must not depend on how the results are presented
			var extra []any
			for i, n := 0, rs.Range(1, 2); i < n; i++ {
				f := Pick(rs, []string{"-0", "-0", "-N", "-r", "-P", "-M", "-C", "--unwrapScalar=false"})
				argv = append(argv, f)
				extra = append(extra, f)
			}
			sc.Meta["presentation_flags"] = extra
		}
		expr := e.Combined()
		if rs.Chance(1, 2) {
			expr = Pick(rs, []string{".missing", ".g", ".f", ".d[] | . > 5", "select(.a > 5)", ".f, .g", "false", "null", ".c.z", ".e[] | .v > 4", "select(.f) | .f", ".g, .missing", "[]", "\"false\"", "0", ".f and .c.z", ".a > 100"})
		}
		finish(expr)
	case "null-input":
		out = Pick(rs, []string{"json0", "yaml"})
		argv = append(argv, "-n")
		addOut()
		expr := Pick(rs, []string{".a = 1", "{\"a\": 1}", "[1, 2]", "\"x\"", ".a.b.c = \"cat\"", "1 + 1", ".a = 1 | .b = [.a]", "null", "{}"})
		sc.Files = nil
		evalAll = rs.Chance(1, 3)
		format = "yaml"
		finish(expr)
		// every input stream is traced: the oracle wants to see that none is opened
		sc.Plan.Readers = []ReaderPlan{{Stream: "input", ErrAt: -1}}
		if rs.Chance(1, 4) {
			// -n together with a file must be refused
			g := &DocGen{R: r.Fork("doc"), Plain: true}
			sc.Files = []File{{Name: "f1.yaml", Docs: []string{g.Doc(DocID(r, 0, 0)).YAML()}, Mode: 0644}}
			switch rs.Intn(4) {
			case 0:
				sc.Argv = append(sc.Argv, "f1.yaml")
			case 1:
				sc.Argv = []string{"-n", "--expression=" + expr, "f1.yaml"}
			case 2:
				sc.Files = append(sc.Files, File{Name: "e.yq", Data: Bytes(expr), Mode: 0644})
				sc.Argv = []string{"-n", "--from-file=e.yq", "f1.yaml"}
			default:
				sc.Argv = []string{"-n", "f1.yaml"}
			}
			sc.Meta["n_with_file"] = true
			sc.Meta["freeze_data"] = true
			sc.Meta["keep_flags"] = []any{"-n", "--expression=" + expr, "--from-file=e.yq"}
		}
	case "auto-format":
		fi := Pick(rs, InputFormats[:8])
		ext := fi.Ext
		if fi.Name == "yaml" {
			ext = Pick(rs, []string{"yaml", "yml"})
		}
		id0 := DocID(r, 0, 0)
		sc.Files = []File{{Name: "f1." + ext, Docs: []string{fi.Gen(r.Fork("d0"), id0)}, Mode: 0644}}
		if rs.Chance(1, 2) {
			other := Pick(rs, []string{"yaml", "json", "txt", "xml", "properties", "data"})
			sc.Files = append(sc.Files, File{Name: "f2." + other, Docs: []string{fi.Gen(r.Fork("d1"), DocID(r, 1, 0))}, Mode: 0644})
		}
		if rs.Chance(1, 6) {
			// unknown extension means yaml
			fi = InputFormats[0]
			sc.Files = []File{{Name: Pick(rs, []string{"f1.txt", "f1.md", "f1", "f1.conf"}), Docs: []string{fi.Gen(r.Fork("d0"), id0)}, Mode: 0644}}
		}
		if rs.Chance(1, 6) {
			// stdin first: `-` has no extension, so yaml it is, whatever follows
			fi = InputFormats[0]
			g := &DocGen{R: r.Fork("d0"), Plain: true}
			sc.Files = []File{{Name: "-", Docs: []string{g.Doc(id0).YAML()}, Mode: 0644},
				{Name: "f2." + Pick(rs, []string{"json", "yaml", "properties", "xml", "csv"}), Docs: []string{GenJSONDoc(r.Fork("d1"), DocID(r, 1, 0), false)}, Mode: 0644}}
		}
		if rs.Chance(1, 5) {
			// several dots: only the last extension counts, whatever the earlier components look like
			inner := Pick(rs, []string{"p", "y", "j", "x", "c", "t", "l", "csv", "json", "xml", "properties", "yaml", "index", "v1.2"})
			for i := range sc.Files {
				if sc.Files[i].Name != "-" {
					parts := strings.SplitN(sc.Files[i].Name, ".", 2)
					if len(parts) == 2 {
						sc.Files[i].Name = parts[0] + "." + inner + "." + parts[1]
					}
				}
			}
			sc.Meta["multi_dot"] = true
		}
		if rs.Chance(1, 5) {
			// an explicit output format must hold whatever the first file is called
			fi = InputFormats[0]
			g := &DocGen{R: r.Fork("d0"), Plain: true}
			sc.Files = []File{{Name: Pick(rs, []string{"deploy.yaml.tmpl", "f1.bak", "f1.txt", "notes", "f1.yml.orig", "f1.JSON5"}), Docs: []string{g.Doc(id0).YAML()}, Mode: 0644}}
			o := Pick(rs, []string{"json", "props", "xml", "j", "p"})
			argv = append(argv, Pick(rs, []string{"-o=" + o, "--output-format=" + o}))
			sc.Meta["auto_out"] = o
		}
		sc.Meta["auto"] = fi.Name
		expr := Pick(rs, []string{".", fi.IDPath})
		format = fi.Name
		evalAll = rs.Chance(1, 4)
		if evalAll {
			argv = append(argv, "ea")
		}
		if rs.Chance(1, 5) {
			// the expression comes as a positional *.yq file: it is not an input, the format is that of the first data file
			sc.Files = append(sc.Files, File{Name: "pick.yq", Data: Bytes(expr + "\n"), Mode: 0644})
			argv = append(argv, "pick.yq")
			sc.Meta["positional_yq"] = true
			sc.Meta["freeze_data"] = true
		} else {
			argv = append(argv, expr)
		}
		for _, f := range sc.Files {
			if f.Name == "pick.yq" {
				continue
			}
			argv = append(argv, f.Name)
		}
		sc.Argv = argv
		sc.Meta["expr"] = expr
		sc.Meta["keep_flags"] = []any{"ea"}
	case "malformed":
		// a record that an independent reader of the format rejects, at some position of some file
		format = Pick(rs, []string{"csv", "tsv", "json", "toml", "lua", "xml", "xml", "base64", "uri", "props"})
		nf := rs.Range(1, 3)
		bad := rs.Intn(nf)
		ext := FormatByName(format).Ext
		for i := 0; i < nf; i++ {
			text := genRecords(r.Fork("rec"+strconv.Itoa(i)), format, i)
			if i == bad {
				for try := 0; try < 20; try++ {
					cand := breakRecords(rf, format, text)
					if MalformedFor(format, cand) {
						text = cand
						break
					}
				}
			}
			sc.Files = append(sc.Files, File{Name: "f" + strconv.Itoa(i+1) + "." + ext, Data: Bytes(text), Mode: 0644})
		}
		sc.Meta["bad_file"] = sc.Files[bad].Name
		sc.Meta["freeze_data"] = true
		out = "json0"
		evalAll = rs.Chance(1, 4)
		if evalAll {
			argv = append(argv, "ea")
		}
		argv = append(argv, "-p="+format, "-o=json", "-I0", ".")
		for _, f := range sc.Files {
			argv = append(argv, f.Name)
		}
		sc.Argv = argv
		sc.Meta["expr"] = "."
		sc.Meta["format"] = format
		sc.Meta["keep_flags"] = []any{"-p=" + format, "ea", "-o=json", "-I0"}
	case "usage":
		// invocations that cannot work must say so and exit non-zero
		g := &DocGen{R: r.Fork("doc"), Plain: true}
		sc.Files = []File{{Name: "f1.yaml", Docs: []string{g.Doc(DocID(r, 0, 0)).YAML()}, Mode: 0644}}
		sc.Argv = Pick(rs, [][]string{
			{"-i", ".a = 1"}, {"-i", ".a = 1", "-"}, {"-i", "-s", ".id", ".", "f1.yaml"}, {"--nope", ".", "f1.yaml"}, {"-o=foo", ".", "f1.yaml"}, {"-p=foo", ".", "f1.yaml"},
			{"--front-matter=process", "."}, {"--from-file=missing.yq", "f1.yaml"}, {"-n", ".", "f1.yaml"}, {"-I", "x", ".", "f1.yaml"}, {"--split-exp-file=missing.yq", ".", "f1.yaml"},
			{"--xml-attribute-prefix", ".", "f1.yaml", "--csv-separator=ab"}, {"ea", "-i", "."}, {"-o=sh", ".", "nosuchfile.yaml"}, {"-p=shell", ".", "f1.yaml"}, {"-I-2", ".", "f1.yaml"},
		})
		sc.Meta["expr"] = "."
		sc.Meta["freeze_data"] = true
		sc.Meta["keep_flags"] = []any{"-i", "-s", "-n", "ea", "--nope", "-o=foo", "-p=foo", "--front-matter=process", "--from-file=missing.yq", "-I", "--split-exp-file=missing.yq", "--xml-attribute-prefix", "--csv-separator=ab", "-o=sh", "-p=shell", "-I-2"}
	case "nested-fail":
		// a failure deep inside an operator that iterates, on an element that is not the last one:
		// whatever wraps it must pass the failure on
		sc.Files = GenMultiFiles(r.Fork("files"), opts)
		bad, conv := "\"x\"", "to_number"
		switch rs.Intn(3) {
		case 1:
			bad, conv = "\"{bad\"", "from_json"
		case 2:
			bad, conv = "\"!!!\"", "@base64d"
		}
		good := map[string]string{"to_number": "\"5\"", "from_json": "\"[1]\"", "@base64d": "\"aGk=\""}[conv]
		g := Pick(rs, []string{
			"[{\"n\":" + bad + "},{\"n\":" + good + "}]",
			"[{\"n\":" + bad + "},{\"n\":" + good + "},{\"n\":" + good + "}]",
			"[{\"n\":" + good + "},{\"n\":" + bad + "},{\"n\":" + good + "}]",
		})
		f := ".n | " + conv
		ctx := Pick(rs, []string{
			"G | with(.[]; .n |= C)", "G | map(F)", "G | .[] |= (F)", "G | .[] | F", "G | map_values(F)", "[G[] | F]", "G | sort_by(F)", "G | \"v: \\(.[] | F)\"",
			"G | any_c((F) == 1)", "G | all_c((F) != 1)", "G | .[] | select((F) == 1)", "G | with_entries(.value |= (F))", "G | .[] as $i ireduce (0; [$i | F])", "G | .[] as $i | ($i | F)",
			"G | group_by(F)", "G | unique_by(F)", "G | (.[] | .n) |= C", "G | to_entries | map(.value | F)", "G | .. | select(tag == \"!!str\") | C", "G | del(.[] | select((F) == 1))",
			"G | .[] | with(.n; . |= C)", "G | .[] | (F) as $v | $v", ".new = (G | map(F))", ". as $d | G | map(F)", "G | map(F) | length", "{\"k\": (G | map(F))}", "(G | map(F)), 1", "1, (G | map(F))",
		})
		expr := strings.NewReplacer("G", g, "F", f, "C", conv).Replace(ctx)
		if rs.Chance(1, 4) {
			// no document at all in any input: the expression is then evaluated once against null
			sc.Files = nil
			for i, n := 0, rs.Range(1, 2); i < n; i++ {
				sc.Files = append(sc.Files, File{Name: "f" + strconv.Itoa(i+1) + ".yaml", Data: Bytes(Pick(rs, []string{"", "\n", "\n\n"})), Mode: 0644})
			}
			if !strings.HasPrefix(ctx, "G") && !strings.HasPrefix(ctx, "[G") {
				expr = Pick(rs, []string{"error(\"boom\")", "load(\"missing.yaml\")", g + " | map(" + f + ")", "\"x\" | to_number", ".a = (\"{bad\" | from_json)"})
			}
			sc.Meta["zero_documents"] = true
		}
		addOut()
		finish(expr)
		sc.Meta["freeze_data"] = true
	case "root-command":
		// flags only, input on stdin: the root command itself evaluates `.`
		g := &DocGen{R: r.Fork("doc"), Plain: true}
		doc := g.Doc(DocID(r, 0, 0)).YAML()
		kind := Pick(rs, []string{"ok", "ok", "encoder-domain", "bad-input", "e-false", "expr-only", "expr-only"})
		argv = nil
		switch kind {
		case "expr-only":
			// an expression and nothing else: the input is whatever arrives on stdin, however late
			argv = Pick(rs, [][]string{{".a"}, {"-o=json", "-I0", "."}, {".id"}, {"-o=json", "-I0", "[.id, .a]"}, {"-P", ".c"}})
			if rs.Chance(1, 2) {
				sc.StdinDelayMs = Pick(rs, []int{300, 450, 700})
			}
		case "ok":
			argv = Pick(rs, [][]string{{"-o=json", "-I0"}, {"-P"}, {"-o=props"}, {"-o=json"}, {"-N"}})
		case "encoder-domain":
			doc = "- 1\n- {a: 2}\n"
			argv = Pick(rs, [][]string{{"-o=xml"}, {"-o=csv"}, {"-o=base64"}, {"-o=toml"}})
		case "bad-input":
			doc = Pick(rs, badYAML)
			argv = Pick(rs, [][]string{{"-P"}, {"-o=json"}, {"-N"}, {"-e"}})
		case "e-false":
			doc = Pick(rs, []string{"false\n", "null\n", "~\n"})
			argv = []string{"-e"}
		}
		sc.Files = []File{{Name: "-", Docs: []string{doc}, Mode: 0644}}
		sc.Argv = argv
		sc.Meta["root_kind"] = kind
		sc.Meta["expr"] = "."
		sc.Meta["format"] = "yaml"
		sc.Meta["freeze_data"] = true
		keep := []any{}
		for _, a := range argv {
			keep = append(keep, a)
		}
		sc.Meta["keep_flags"] = keep
	case "from-file":
		// the expression given in a file must behave like the same expression on the command line
		sc.Files = GenMultiFiles(r.Fork("files"), opts)
		expr := e.Combined()
		body := expr
		switch rs.Intn(4) {
		case 1:
			body = expr + "\n"
		case 2:
			body = strings.ReplaceAll(expr, " | ", " |\r\n  ")
		case 3:
			body = "# a comment\n" + expr + "\n"
		}
		name := Pick(rs, []string{"e.yq", "expr.txt"})
		sc.Files = append(sc.Files, File{Name: name, Data: Bytes(body), Mode: 0644})
		addOut()
		if evalAll {
			argv = append([]string{"ea"}, argv...)
		}
		if format == "json" {
			argv = append(argv, "-p=json")
		}
		argv = append(argv, "--from-file="+name)
		for _, f := range sc.Files {
			if f.Name != name {
				argv = append(argv, f.Name)
			}
		}
		sc.Argv = argv
		sc.Meta["expr"] = expr
		sc.Meta["expr_file"] = name
		sc.Meta["format"] = format
		sc.Meta["freeze_data"] = true
		sc.Meta["keep_flags"] = []any{"-p=json", "ea", "-o=json", "-I0", "--from-file=" + name}
	case "encoder-domain":
		g := &DocGen{R: r.Fork("doc"), Plain: true, Full: true}
		sc.Files = []File{{Name: "f1.yaml", Docs: []string{g.Doc(DocID(r, 0, 0)).YAML()}, Mode: 0644}}
		combo := Pick(rs, [][2]string{
			{"-o=csv", "."}, {"-o=csv", ".c"}, {"-o=csv", "[.]"}, {"-o=tsv", "."}, {"-o=tsv", "[.]"}, {"-o=xml", ".d"}, {"-o=xml", ".e"},
			{"-o=csv", "[{\"k\": 1}, {\"k\": {\"n\": 2}}]"}, {"-o=csv", "[{\"k\": 1}, {\"k\": [1]}]"}, {"-o=tsv", "[{\"k\": 1}, {\"k\": {\"n\": 2}}]"}, {"-o=csv", "[[1], [{\"a\": 1}]]"}, {"-o=csv", ".e + [{\"k\": .c}]"},
			{"-o=csv", "[[1, 2], [3, [4]]]"}, {"-o=xml", "[1, 2]"}, {"-o=base64", ".c"}, {"-o=uri", ".c"},
			{"-o=toml", "."}, {"-o=toml", ".d"}, {"-o=toml", ".c"}, {"-o=toml", "[]"}, {"-o=toml", ".d | map(select(false))"}, {"-o=base64", "."}, {"-o=base64", ".d"}, {"-o=base64", ".a"}, {"-o=uri", "."}, {"-o=uri", ".d"},
			{"-o=xml", "{\"+directive\": \"DOCTYPE a <b\", \"r\": 1}"}, {"-o=xml", "{\"+p_xml\": \"version=\\\"1.0\\\" ?> x\", \"r\": 1}"}, {"-o=xml", "{\"r\": 1, \"+directive\": \"a > b <\"}"},
			{"-o=xml", "{\"r\": {\"+@a\": [1, 2], \"b\": 1}}"}, {"-o=xml", "{\"r\": {\"+@a\": {\"n\": 1}}}"}, {"-o=xml", "{\"r\": {\"+@a\": .d}}"}, {"-o=xml", "{\"r\": {\"+@a\": .c, \"+content\": \"t\"}}"},
		})
		if rs.Chance(1, 5) {
			// no document in the input: the result comes from the expression alone and must be refused all the same
			sc.Files[0].Docs = nil
			sc.Files[0].Data = Bytes(Pick(rs, []string{"", "\n"}))
			combo = Pick(rs, [][2]string{{"-o=xml", "[1, 2]"}, {"-o=csv", "{\"a\": {\"b\": 1}}"}, {"-o=csv", "[{\"k\": 1}, {\"k\": {\"n\": 2}}]"}, {"-o=base64", "1"}, {"-o=base64", "{\"a\": 1}"}, {"-o=toml", "[1]"}, {"-o=uri", "[1]"}, {"-o=tsv", "[[1], [{\"a\": 1}]]"}})
			sc.Meta["zero_documents"] = true
			sc.Meta["freeze_data"] = true
		}
		if !sc.MetaBool("zero_documents") && rs.Chance(1, 3) {
			// scalars that an encoder cannot represent
			sc.Files[0].Docs[0] += "bad: !!int 12abc\ninf: .inf\nfl: !!float xyz\ncx:\n  - ? [p, q]\n    : 1\n"
			sc.Meta["freeze_data"] = true
			combo = Pick(rs, [][2]string{{"-o=json", ".bad"}, {"-o=json", ".inf"}, {"-o=json", "."}, {"-o=json", "[.a, .bad]"}, {"-o=json", ".fl"}, {"-o=json", "{\"k\": .inf}"}, {"-o=csv", ".cx"}, {"-o=tsv", ".cx"}, {"-o=csv", ".cx"}})
			if rs.Chance(1, 3) {
				// a merge key whose alias is not a map cannot be exploded for an encoder without aliases
				sc.Files[0].Docs[0] = "id: " + DocID(r, 0, 0) + "\nx: &x 1\ny:\n  <<: *x\n  k: v\n"
				combo = Pick(rs, [][2]string{{"-o=json", "."}, {"-o=props", "."}, {"-o=json", ".y"}, {"-o=xml", "."}, {"-o=lua", "."}, {"-o=shell", "."}})
			}
		}
		evalAll = rs.Chance(1, 4)
		if evalAll {
			argv = append(argv, "ea")
		}
		for _, f := range []string{"-C", "-I0", "-N", "-M", "-I4"} {
			if rs.Chance(1, 5) {
				argv = append(argv, f)
			}
		}
		sc.Argv = append(argv, combo[0], combo[1], "f1.yaml")
		sc.Meta["expr"] = combo[1]
		sc.Meta["keep_flags"] = []any{combo[0], "ea"}
		sc.Meta["enc"] = combo[0]
	case "nul-output":
		opts.PlainOnly, opts.AllowStdin, opts.Format = true, false, "yaml"
		sc.Files = GenMultiFiles(r.Fork("files"), opts)
		if rs.Chance(1, 5) {
			// a NUL inside a result cannot be told from the separator: must be refused
			sc.Files = []File{{Name: "f1.yaml", Docs: []string{"id: " + DocID(r, 0, 0) + "\ns: \"a\\0b\"\nm:\n  k: \"x\\0y\"\nl:\n  - \"p\\0q\"\n"}, Mode: 0644}}
			nc := Pick(rs, [][]string{{"-o=shell", ".m"}, {"-o=props", ".m"}, {"-o=csv", ".l"}, {"-o=tsv", ".l"}, {"-r", ".s"}, {"-o=props", "."}, {"-o=json", ".m"}, {"-o=yaml", ".s"}})
			sc.Argv = append([]string{"-0"}, append(nc, "f1.yaml")...)
			sc.Meta["expr"] = nc[len(nc)-1]
			sc.Meta["nul_inside"] = true
			sc.Meta["freeze_data"] = true
			sc.Meta["keep_flags"] = []any{"-0", nc[0]}
			return sc
		}
		combo := Pick(rs, [][]string{
			{"-o=json", "-I0", "."}, {"-o=json", "-I0", ".id"}, {"-o=json", "-I0", ".c"}, {"-o=props", ".c"}, {"-o=csv", ".d"}, {"-o=tsv", ".d"}, {"-o=xml", ".c"},
			{"-N", ".id"}, {"-N", ".a"}, {"-N", ".c"}, {"-o=json", ".c"}, {"-o=csv", ".e"}, {"-o=lua", ".c"}, {"-o=shell", ".c"}, {"-o=base64", ".b"},
		})
		evalAll = false
		argv = append(argv, "-0")
		argv = append(argv, combo[:len(combo)-1]...)
		expr := combo[len(combo)-1]
		argv = append(argv, expr)
		for _, f := range sc.Files {
			argv = append(argv, f.Name)
		}
		sc.Argv = argv
		sc.Meta["expr"] = expr
		keep := []any{"-0"}
		for _, x := range combo[:len(combo)-1] {
			keep = append(keep, x)
		}
		sc.Meta["keep_flags"] = keep
	}
	return sc
}

func c19Split(sc *Scenario) (flags []string, names []string) {
	expr := sc.MetaString("expr")
	if sc.MetaBool("positional_yq") {
		expr = "pick.yq" // the expression is given as a positional file
	}
	seen := false
	for _, a := range sc.Argv {
		switch {
		case !seen && a == expr:
			seen = true
		case !seen:
			flags = append(flags, a)
		default:
			names = append(names, a)
		}
	}
	return
}

func removeArg(argv []string, drop ...string) []string {
	var out []string
	for _, a := range argv {
		skip := false
		for _, d := range drop {
			if a == d {
				skip = true
			}
		}
		if !skip {
			out = append(out, a)
		}
	}
	return out
}

func trimLastEOL(b []byte) []byte {
	n := len(b)
	if n >= 2 && b[n-2] == '\r' && b[n-1] == '\n' {
		return b[:n-2]
	}
	if n >= 1 && (b[n-1] == '\n' || b[n-1] == '\r') {
		return b[:n-1]
	}
	return b
}

func (C19) Judge(c *Ctx, sc *Scenario) []Violation {
	variant := sc.MetaString("variant")
	var vs []Violation
	add := func(oracle, detail, msg string) {
		sig := fmt.Sprintf("%s %s variant=%s", oracle, detail, variant)
		vs = append(vs, Violation{Prop: "C19", Oracle: oracle, Sig: sig, Class: oracle + " " + detail,
			Msg: msg + " | argv=" + strings.Join(sc.Argv, " ")})
	}
	out := c.Exec(sc)
	evalAll := len(sc.Argv) > 0 && sc.Argv[0] == "ea"
	if !c.Quiet {
		c.Count("variant." + variant)
	}
	if out.TimedOut || out.Exit == ExitBudget || out.Exit == ExitPoll {
		_, inNames := c19Split(sc)
		if ExplainedByCrossProduct(c, sc, inNames) {
			return vs // eval-all over three or more documents: results multiply, see crossproduct.go
		}
		add("O19.0", "hang", "run did not terminate")
		return vs
	}
	if crashed, how := out.Crashed(); crashed || out.Signal != 0 {
		add("O19.0", "crash="+how, "run crashed: "+firstLines(out.Stderr, 5))
		return vs
	}
	nontrivial := false
	defer func() {
		if !c.Quiet {
			c.Stats.Distinct(variant+out.TraceSig(), nontrivial)
		}
	}()
	mustFail := func(oracle, what string) bool {
		ok := true
		if out.Exit == 0 {
			add(oracle, "exit=0 "+what, fmt.Sprintf("%s but yq exited 0; stdout=%q", what, clip(out.Stdout, 200)))
			ok = false
		} else if len(bytes.TrimSpace(out.Stderr)) == 0 {
			add(oracle, "silent "+what, fmt.Sprintf("%s: exit %d but nothing on stderr", what, out.Exit))
			ok = false
		}
		return ok
	}
	flags, names := c19Split(sc)
	if variant == "split-output" {
		problems, nt := JudgeSplit(c, sc)
		nontrivial = nt
		if nt && !c.Quiet {
			c.Count("probe.split_files_compared_with_per_document_runs")
		}
		for _, p := range problems {
			add("O19.10", "split "+p[0], p[1])
		}
		return vs
	}
	if variant == "root-command" {
		nontrivial = true
		kind := sc.MetaString("root_kind")
		if sc.File("-") == nil {
			return vs
		}
		// the same evaluation through the eval sub-command is the reference for the status
		refArgv := append(append([]string{}, sc.Argv...), ".", "-")
		if kind == "expr-only" {
			refArgv = append(append([]string{}, sc.Argv...), "-")
		}
		ref := c.Ref(refArgv, sc.Files, sc.Stdin)
		if (ref.Exit == 0) != (out.Exit == 0) {
			add("O19.11", fmt.Sprintf("root exit=%d eval exit=%d kind=%s", out.Exit, ref.Exit, kind), fmt.Sprintf("the root command (flags only, input on stdin) exits %d, `yq <flags> . -` exits %d", out.Exit, ref.Exit))
		}
		if out.Exit != 0 {
			if len(bytes.TrimSpace(out.Stderr)) == 0 {
				add("O19.11", "silent kind="+kind, fmt.Sprintf("exit %d but nothing on stderr; stdout=%q", out.Exit, clip(out.Stdout, 200)))
			}
			if bytes.Contains(out.Stdout, []byte("Error:")) {
				add("O19.11", "message-on-stdout kind="+kind, fmt.Sprintf("the error message went to stdout, among the results: %q", clip(out.Stdout, 200)))
			}
		} else if !bytes.Equal(out.Stdout, ref.Stdout) {
			add("O19.11", "stdout kind="+kind, fmt.Sprintf("root command prints %q, `yq <flags> . -` prints %q", clip(out.Stdout, 200), clip(ref.Stdout, 200)))
		}
		if !c.Quiet {
			c.Count("probe.root_command_" + kind)
		}
		return vs
	}
	if len(names) == 0 && variant != "null-input" && variant != "usage" && variant != "from-file" {
		if !c.Quiet {
			// only the shrinker (which runs quiet) should get here; a generated scenario that does is not judged
			// at all, and this counter says so in the evidence (it hid the positional-expression scenarios once)
			c.Count("probe.generated_scenario_without_inputs_not_judged")
		}
		return vs // degenerate (the shrinker removed every input): nothing is claimed
	}
	switch variant {
	case "read-fault":
		fired := false
		for _, e := range out.Events {
			if e.Kind == "read" && strings.HasPrefix(e.Decision, "error:") {
				fired = true
			}
		}
		if !fired {
			return vs
		}
		nontrivial = true
		mustFail("O19.1", "read-error")
		clean := sc.Clone()
		clean.Plan = Plan{}
		ref := c.Ref(clean.Argv, clean.Files, clean.Stdin)
		if !bytes.HasPrefix(ref.Stdout, out.Stdout) {
			add("O19.1", "not-prefix read-error", fmt.Sprintf("after a read error the output is not a prefix of the fault-free output: got %q want prefix of %q", clip(out.Stdout, 300), clip(ref.Stdout, 300)))
		}
	case "write-fault":
		fired := false
		for _, e := range out.Events {
			if e.Kind == "write" && strings.HasPrefix(e.Decision, "error:") {
				fired = true
			}
		}
		if !fired {
			return vs
		}
		nontrivial = true
		mustFail("O19.2", "write-error")
		clean := sc.Clone()
		clean.Plan = Plan{}
		ref := c.Ref(clean.Argv, clean.Files, clean.Stdin)
		if !bytes.HasPrefix(ref.Stdout, out.Stdout) {
			add("O19.2", "not-prefix write-error", fmt.Sprintf("bytes that reached the sink are not a prefix of the fault-free output: got %q want prefix of %q", clip(out.Stdout, 300), clip(ref.Stdout, 300)))
		}
	case "devfull":
		clean := sc.Clone()
		clean.StdoutDevFull = false
		ref := c.Ref(clean.Argv, clean.Files, clean.Stdin)
		if len(ref.Stdout) == 0 {
			return vs
		}
		nontrivial = true
		if !c.Quiet {
			c.Count("fired.write./dev/full.ENOSPC")
		}
		mustFail("O19.2", "devfull")
	case "open-fault":
		j := sc.MetaInt("open_pos")
		kind := sc.MetaString("open_fault")
		// does the fault still exist in this (possibly shrunk) scenario?
		exists := false
		for _, f := range sc.Files {
			if f.Missing || f.Dir {
				exists = true
			}
		}
		for _, e := range out.Events {
			if e.Site == "input.open" && strings.HasPrefix(e.Decision, "error:") {
				exists = true
			}
		}
		if !exists || j >= len(names) {
			return vs
		}
		nontrivial = true
		if !c.Quiet {
			c.Count("fired.open." + kind)
		}
		if !mustFail("O19.3", "open-fault="+kind) {
			return vs
		}
		want := []byte{}
		if !evalAll && j > 0 {
			var files []File
			for _, n := range names[:j] {
				if f := sc.File(n); f != nil {
					files = append(files, *f)
				}
			}
			argv := append(append([]string{}, flags...), sc.MetaString("expr"))
			argv = append(argv, names[:j]...)
			ref := c.Ref(argv, files, nil)
			if ref.Exit != 0 {
				return vs
			}
			want = ref.Stdout
		}
		if !bytes.Equal(out.Stdout, want) {
			add("O19.3", "stdout open-fault="+kind, fmt.Sprintf("with input %d unopenable the output should be exactly that of the inputs before it: got %q want %q", j, clip(out.Stdout, 300), clip(want, 300)))
		}
	case "decode-fail", "eval-fail":
		lay := LayoutOf(filesInOrder(sc, names), "yaml")
		badAt := -1
		for k, d := range lay {
			if variant == "decode-fail" && strings.Contains(d.Piece, sc.MetaString("bad")) {
				badAt = k
				break
			}
			if variant == "eval-fail" && d.ID != "" && d.ID == sc.MetaString("bad_id") {
				badAt = k
				break
			}
		}
		if badAt < 0 {
			return vs
		}
		nontrivial = true
		if !c.Quiet {
			c.Count("fired.generated." + variant)
		}
		if !mustFail("O19.4", variant) {
			return vs
		}
		if evalAll {
			if len(out.Stdout) != 0 {
				add("O19.4", "stdout "+variant+" mode=ea", fmt.Sprintf("eval-all printed %q although a document failed", clip(out.Stdout, 200)))
			}
			return vs
		}
		// prefix rule against per-document references (json0 output: plain concatenation)
		inner := sc.MetaString("inner_expr")
		if variant == "decode-fail" {
			inner = sc.MetaString("expr")
		}
		var all, earlierFiles []byte
		for _, d := range lay[:badAt] {
			argv := append(append([]string{}, flags...), inner, d.Name)
			ref := c.Ref(argv, []File{{Name: d.Name, Data: Bytes(SoloText(d.Piece, d.DocIndex)), Mode: 0644}}, nil)
			if ref.Exit != 0 {
				return vs
			}
			o := ref.Stdout
			if strings.Contains(inner, "di") || strings.Contains(inner, "fi") || strings.Contains(inner, "file") {
				return vs // position-dependent expression: the solo run is not comparable here (C10 covers it)
			}
			all = append(all, o...)
			if d.FileIndex < lay[badAt].FileIndex {
				earlierFiles = append(earlierFiles, o...)
			}
		}
		if !bytes.HasPrefix(all, out.Stdout) || !bytes.HasPrefix(out.Stdout, earlierFiles) {
			add("O19.4", "stdout "+variant, fmt.Sprintf("after the failure of document %d the output must be the results of the documents before it (all of the earlier files, a prefix within the failing file): got %q want between %q and %q", badAt, clip(out.Stdout, 300), clip(earlierFiles, 300), clip(all, 300)))
		}
	case "complete":
		if out.Exit != 0 {
			if len(bytes.TrimSpace(out.Stderr)) == 0 {
				add("O19.5", "silent failure", fmt.Sprintf("exit %d without a message", out.Exit))
			}
			return vs
		}
		format := sc.MetaString("format")
		lay := LayoutOf(filesInOrder(sc, names), format)
		nontrivial = len(lay) > 1
		expr := sc.MetaString("expr")
		if strings.Contains(expr, "di") || strings.Contains(expr, "fi") || strings.Contains(expr, "file") {
			return vs
		}
		if evalAll {
			return vs // eval-all evaluates the expression once over all documents: per-document runs are no reference
		}
		var want []byte
		for _, d := range lay {
			solo := d.Piece
			if format == "yaml" {
				solo = SoloText(d.Piece, d.DocIndex)
			}
			argv := append(append([]string{}, flags...), expr, d.Name)
			ref := c.Ref(argv, []File{{Name: d.Name, Data: Bytes(solo), Mode: 0644}}, nil)
			if ref.Exit != 0 {
				add("O19.5", "exit=0 doc-fails", fmt.Sprintf("yq exited 0 but document f%dd%d fails on its own: %s", d.FileIndex, d.DocIndex, firstLines(ref.Stderr, 2)))
				return vs
			}
			want = append(want, ref.Stdout...)
		}
		if evalAll {
			return vs
		}
		of := outFormatOf(sc.Argv, sc.Files)
		if of != "json0" && of != "props" {
			return vs
		}
		if !bytes.Equal(stripComments(out.Stdout), stripComments(want)) {
			add("O19.5", "incomplete in="+format, fmt.Sprintf("yq exited 0 but its output is not the complete sequence of per-document results: got %q want %q", clip(out.Stdout, 400), clip(want, 400)))
		}
	case "exit-status":
		refArgv := removeArg(sc.Argv, "-e")
		ref := c.Ref(refArgv, sc.Files, sc.Stdin)
		if ref.Exit != 0 {
			return vs
		}
		nontrivial = true
		want1 := true
		truth := ref
		if fl, ok := sc.Meta["presentation_flags"].([]any); ok && len(fl) > 0 {
			// what the results are is read from a run without the presentation flags
			targv := refArgv
			for _, f := range fl {
				if fs, ok := f.(string); ok {
					targv = removeArg(targv, fs)
				}
			}
			truth = c.Ref(targv, sc.Files, sc.Stdin)
			if truth.Exit != 0 {
				return vs
			}
			if !c.Quiet {
				c.Count("probe.exit_status_with_presentation_flags")
			}
		}
		for _, line := range strings.Split(string(truth.Stdout), "\n") {
			if strings.TrimSpace(line) == "" {
				continue
			}
			var v any
			if err := json.Unmarshal([]byte(line), &v); err != nil {
				return vs // not one JSON value per line (indent flag dropped by the shrinker)
			}
			if v != nil && v != false {
				want1 = false
			}
		}
		if !c.Quiet {
			if want1 {
				c.Count("probe.exit_status_expected_1")
			} else {
				c.Count("probe.exit_status_expected_0")
			}
		}
		if (out.Exit == 1) != want1 || (out.Exit != 0 && out.Exit != 1) {
			add("O19.6", fmt.Sprintf("exit=%d want1=%v", out.Exit, want1), fmt.Sprintf("-e: exit %d but results are %q", out.Exit, clip(ref.Stdout, 300)))
		}
		if !bytes.Equal(out.Stdout, ref.Stdout) {
			add("O19.6", "stdout", fmt.Sprintf("-e changed the output: %q vs %q", clip(out.Stdout, 200), clip(ref.Stdout, 200)))
		}
		if out.Exit == 1 && len(bytes.TrimSpace(out.Stderr)) == 0 {
			add("O19.6", "silent", "-e exit 1 without a message")
		}
	case "null-input":
		nontrivial = true
		if sc.MetaBool("n_with_file") && len(sc.Files) > 0 {
			mustFail("O19.7", "n-with-file")
			return vs
		}
		for _, e := range out.Events {
			if e.Kind == "open" || e.Kind == "read" {
				add("O19.7", "reads", "-n but yq opened/read "+e.Site)
				break
			}
		}
		withIn := sc.Clone()
		in := Bytes("a: from-stdin\nb: [1, 2]\n")
		withIn.Stdin = &in
		o2 := c.Exec(withIn)
		for _, e := range o2.Events {
			if e.Kind == "open" || e.Kind == "read" {
				add("O19.7", "reads", "-n but yq opened/read "+e.Site+" when stdin holds data")
				break
			}
		}
		if !bytes.Equal(o2.Stdout, out.Stdout) || o2.Exit != out.Exit {
			add("O19.7", "depends-on-stdin", fmt.Sprintf("-n output depends on stdin: %q/%d vs %q/%d", clip(out.Stdout, 200), out.Exit, clip(o2.Stdout, 200), o2.Exit))
		}
		if out.Exit != 0 {
			add("O19.7", "fails", fmt.Sprintf("-n run failed: %s", firstLines(out.Stderr, 2)))
		}
	case "auto-format":
		auto := sc.MetaString("auto")
		if auto == "" {
			return vs
		}
		nontrivial = true
		explicit := sc.Clone()
		var argv []string
		ins := false
		for _, a := range sc.Argv {
			if !ins && a != "ea" {
				argv = append(argv, "-p="+auto)
				if sc.MetaString("auto_out") == "" {
					argv = append(argv, "-o="+auto)
				} // else the scenario's own -o follows
				ins = true
			}
			argv = append(argv, a)
		}
		explicit.Argv = argv
		o2 := c.Exec(explicit)
		if !bytes.Equal(o2.Stdout, out.Stdout) || o2.Exit != out.Exit {
			add("O19.8", "auto="+auto, fmt.Sprintf("automatic format differs from explicit -p=%s -o=%s: auto exit=%d %q %s ; explicit exit=%d %q", auto, auto, out.Exit, clip(out.Stdout, 200), firstLines(out.Stderr, 2), o2.Exit, clip(o2.Stdout, 200)))
		}
	case "malformed":
		format := sc.MetaString("format")
		var badFile *File
		badIdx := -1
		for i, n := range names {
			if f := sc.File(n); f != nil && MalformedFor(format, string(f.Bytes())) {
				badFile, badIdx = f, i
				break
			}
		}
		if badFile == nil {
			return vs
		}
		nontrivial = true
		if !c.Quiet {
			c.Count("fired.generated.malformed-" + format)
		}
		if !mustFail("O19.4", "malformed in="+format) {
			return vs
		}
		if !evalAll && badIdx > 0 {
			var files []File
			for _, n := range names[:badIdx] {
				if f := sc.File(n); f != nil {
					files = append(files, *f)
				}
			}
			argv := append(append([]string{}, flags...), sc.MetaString("expr"))
			argv = append(argv, names[:badIdx]...)
			ref := c.Ref(argv, files, nil)
			if ref.Exit == 0 && !bytes.HasPrefix(out.Stdout, ref.Stdout) {
				add("O19.4", "stdout malformed in="+format, fmt.Sprintf("the results of the inputs before the malformed one are missing: got %q want prefix %q", clip(out.Stdout, 300), clip(ref.Stdout, 300)))
			}
		}
	case "nested-fail":
		nontrivial = true
		if mustFail("O19.4", "nested-fail") && len(bytes.TrimSpace(out.Stdout)) != 0 {
			add("O19.4", "stdout nested-fail", fmt.Sprintf("the expression fails on every document, yet results were printed: %q", clip(out.Stdout, 200)))
		}
	case "usage":
		nontrivial = true
		if mustFail("O19.4", "usage "+strings.Join(sc.Argv[:1], " ")) && len(out.Stdout) != 0 && !strings.Contains(string(out.Stdout), "Usage:") {
			add("O19.4", "stdout usage", fmt.Sprintf("an invocation that cannot work printed results: %q", clip(out.Stdout, 200)))
		}
	case "from-file":
		name := sc.MetaString("expr_file")
		var argv []string
		var files []File
		for _, a := range sc.Argv {
			if a == "--from-file="+name {
				argv = append(argv, "--expression="+sc.MetaString("expr"))
				continue
			}
			argv = append(argv, a)
		}
		for _, f := range sc.Files {
			if f.Name != name {
				files = append(files, f)
			}
		}
		if len(argv) == len(sc.Argv) && sc.File(name) != nil {
			ref := c.Ref(argv, files, sc.Stdin)
			nontrivial = true
			if !bytes.Equal(ref.Stdout, out.Stdout) || ref.Exit != out.Exit {
				add("O19.8", "from-file", fmt.Sprintf("--from-file differs from the same expression on the command line: file exit=%d %q %s ; inline exit=%d %q", out.Exit, clip(out.Stdout, 200), firstLines(out.Stderr, 2), ref.Exit, clip(ref.Stdout, 200)))
			}
		}
	case "encoder-domain":
		nontrivial = true
		if mustFail("O19.9", "encoder-domain "+sc.MetaString("enc")) && len(out.Stdout) != 0 {
			add("O19.9", "stdout encoder-domain", fmt.Sprintf("encoder refused the result but printed %q", clip(out.Stdout, 200)))
		}
	case "nul-output":
		if sc.MetaBool("nul_inside") {
			nontrivial = true
			if out.Exit == 0 && bytes.Count(out.Stdout, []byte{0}) > 1 {
				add("O19.9", "nul-inside-result", fmt.Sprintf("-0: a result that contains NUL was written as is (%d NUL bytes for one result), exit 0: %q", bytes.Count(out.Stdout, []byte{0}), clip(out.Stdout, 200)))
			}
			return vs
		}
		if out.Exit != 0 {
			return vs
		}
		lay := LayoutOf(filesInOrder(sc, names), "yaml")
		nontrivial = len(lay) > 0
		expr := sc.MetaString("expr")
		soloFlags := removeArg(flags, "-0")
		var want []byte
		for _, d := range lay {
			argv := append(append([]string{}, soloFlags...), expr, d.Name)
			ref := c.Ref(argv, []File{{Name: d.Name, Data: Bytes(SoloText(d.Piece, d.DocIndex)), Mode: 0644}}, nil)
			if ref.Exit != 0 {
				return vs
			}
			if len(trimLastEOL(ref.Stdout)) == 0 {
				// no result, or a result whose encoding is empty: without -0 the two cannot be told apart
				continue
			}
			want = append(want, trimLastEOL(ref.Stdout)...)
			want = append(want, 0)
		}
		// records with an empty encoding legitimately show up as a lone NUL: compare the non-empty records
		var got []byte
		for _, rec := range bytes.SplitAfter(out.Stdout, []byte{0}) {
			if len(rec) == 1 && rec[0] == 0 {
				continue
			}
			got = append(got, rec...)
		}
		if !bytes.Equal(got, want) {
			enc := "yaml"
			for _, f := range flags {
				if strings.HasPrefix(f, "-o=") {
					enc = strings.TrimPrefix(f, "-o=")
				}
			}
			add("O19.9", "nul-output enc="+enc, fmt.Sprintf("-0 output is not the results re-joined by NUL: got %q want %q", clip(out.Stdout, 300), clip(want, 300)))
		}
	}
	return vs
}

func filesInOrder(sc *Scenario, names []string) []File {
	var files []File
	for _, n := range names {
		if f := sc.File(n); f != nil {
			files = append(files, *f)
		}
	}
	return files
}
