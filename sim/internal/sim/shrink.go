package sim

import (
	"strings"
	"time"
)

// Shrink minimises a violating scenario: a candidate is kept only if the
// same oracle still fails and the violation still does not match a known
// finding. Every step re-executes the scenario (fresh processes).
func Shrink(chk Check, ctx *Ctx, sc *Scenario, v Violation, findings []Finding, budget time.Duration) *Scenario {
	deadline := time.Now().Add(budget)
	wasKnown := matchKnown(findings, v) != nil
	still := func(c *Scenario) bool {
		if time.Now().After(deadline) {
			return false
		}
		for _, x := range chk.Judge(ctx, c) {
			if sameClass(x, v) && (matchKnown(findings, x) != nil) == wasKnown {
				return true
			}
		}
		return false
	}
	cur := sc.Clone()
	for round := 0; round < 6; round++ {
		changed := false
		for _, cand := range shrinkCandidates(cur) {
			if time.Now().After(deadline) {
				return cur
			}
			if still(cand) {
				cur = cand
				changed = true
				// restart candidate enumeration on the smaller scenario
				break
			}
		}
		if !changed {
			break
		}
		round = -1 // keep going while progress is made, bounded by the deadline
	}
	return cur
}

func shrinkCandidates(sc *Scenario) []*Scenario {
	var out []*Scenario
	add := func(f func(c *Scenario) bool) {
		c := sc.Clone()
		if f(c) {
			out = append(out, c)
		}
	}
	// faults
	for i := range sc.Plan.Steps {
		i := i
		add(func(c *Scenario) bool { c.Plan.Steps = append(c.Plan.Steps[:i], c.Plan.Steps[i+1:]...); return true })
	}
	if sc.Plan.PanicAt > 0 {
		add(func(c *Scenario) bool { c.Plan.PanicAt, c.Plan.PanicSite = 0, ""; return true })
		if sc.Plan.PanicAt > 1 {
			add(func(c *Scenario) bool { c.Plan.PanicAt--; return true })
		}
	}
	for i := range sc.Plan.Writers {
		i := i
		add(func(c *Scenario) bool {
			c.Plan.Writers = append(c.Plan.Writers[:i], c.Plan.Writers[i+1:]...)
			return true
		})
	}
	for i := range sc.Plan.Readers {
		i := i
		add(func(c *Scenario) bool {
			c.Plan.Readers = append(c.Plan.Readers[:i], c.Plan.Readers[i+1:]...)
			return true
		})
		if len(sc.Plan.Readers[i].Chunks) > 0 {
			add(func(c *Scenario) bool { c.Plan.Readers[i].Chunks = nil; return true })
		}
		if sc.Plan.Readers[i].EOFWithData {
			add(func(c *Scenario) bool { c.Plan.Readers[i].EOFWithData = false; return true })
		}
	}
	if sc.TmpOther {
		add(func(c *Scenario) bool { c.TmpOther = false; return true })
	}
	if sc.Strace != "" {
		add(func(c *Scenario) bool { c.Strace = ""; return true })
	}
	// files: drop a whole input file (never argv[... ] that is the -i target, which is kept in Meta)
	target := sc.MetaString("target")
	for i := range sc.Files {
		name := sc.Files[i].Name
		if name == target || sc.MetaBool("via_symlink") {
			continue
		}
		add(func(c *Scenario) bool {
			c.Files = append(c.Files[:i:i], c.Files[i+1:]...)
			var argv []string
			for _, a := range c.Argv {
				if a != name {
					argv = append(argv, a)
				}
			}
			c.Argv = argv
			return true
		})
	}
	// documents
	for i := range sc.Files {
		if sc.MetaBool("freeze_data") {
			break
		}
		for j := range sc.Files[i].Docs {
			i, j := i, j
			if len(sc.Files[i].Docs) <= 1 {
				continue
			}
			add(func(c *Scenario) bool {
				d := c.Files[i].Docs
				c.Files[i].Docs = append(d[:j:j], d[j+1:]...)
				return true
			})
		}
	}
	// expression
	if e := sc.MetaString("expr"); e != "" {
		if alts, ok := sc.Meta["expr_alts"].([]any); ok {
			for _, a := range alts {
				alt, _ := a.(string)
				if alt == "" || alt == e {
					continue
				}
				add(func(c *Scenario) bool {
					hit := false
					for k, x := range c.Argv {
						if x == e {
							c.Argv[k] = strings.ReplaceAll(strings.ReplaceAll(alt, "@DI@", "di"), "@FI@", "fi")
							hit = true
						}
					}
					c.Meta["expr"] = alt
					c.Meta["expr_raw"] = alt
					c.Meta["family"] = "shrunk"
					c.Meta["total"] = false
					c.Meta["expr_alts"] = []any{"."}
					return hit
				})
			}
		}
	}
	// flags
	keep := map[string]bool{}
	if ks, ok := sc.Meta["keep_flags"].([]any); ok {
		for _, k := range ks {
			if s, ok := k.(string); ok {
				keep[s] = true
			}
		}
	}
	for i, a := range sc.Argv {
		if strings.HasPrefix(a, "-") && a != "-" && !keep[a] {
			i := i
			add(func(c *Scenario) bool { c.Argv = append(c.Argv[:i:i], c.Argv[i+1:]...); return true })
		}
	}
	// raw file data: drop halves, then single lines (not when the oracle's verdict hangs on the exact bytes)
	for i := range sc.Files {
		f := &sc.Files[i]
		if len(f.Docs) > 0 || f.Dir || f.Missing || len(f.Data) == 0 || sc.MetaBool("freeze_data") {
			continue
		}
		i := i
		lines := strings.SplitAfter(string(f.Data), "\n")
		if len(lines) > 1 {
			h := len(lines) / 2
			add(func(c *Scenario) bool { c.Files[i].Data = Bytes(strings.Join(lines[:h], "")); return true })
			add(func(c *Scenario) bool { c.Files[i].Data = Bytes(strings.Join(lines[h:], "")); return true })
			if len(lines) <= 40 {
				for k := range lines {
					k := k
					add(func(c *Scenario) bool {
						c.Files[i].Data = Bytes(strings.Join(lines[:k], "") + strings.Join(lines[k+1:], ""))
						return true
					})
				}
			}
		} else if len(f.Data) > 8 {
			h := len(f.Data) / 2
			add(func(c *Scenario) bool { c.Files[i].Data = c.Files[i].Data[:h]; return true })
			add(func(c *Scenario) bool { c.Files[i].Data = c.Files[i].Data[h:]; return true })
		}
	}
	// docs of a file: shrink a document to its first line (id) only
	for i := range sc.Files {
		if sc.MetaBool("freeze_data") {
			break
		}
		for j, d := range sc.Files[i].Docs {
			i, j := i, j
			lines := strings.SplitAfter(d, "\n")
			if len(lines) > 2 {
				for k := range lines {
					k := k
					if strings.HasPrefix(lines[k], "---") || strings.Contains(lines[k], "id:") {
						continue
					}
					add(func(c *Scenario) bool {
						c.Files[i].Docs[j] = strings.Join(lines[:k], "") + strings.Join(lines[k+1:], "")
						return true
					})
				}
			}
		}
	}
	// libsim
	if sc.Lib != nil {
		l := sc.Lib
		for i := range l.History {
			i := i
			add(func(c *Scenario) bool {
				c.Lib.History = append(c.Lib.History[:i:i], c.Lib.History[i+1:]...)
				return len(c.Lib.History) > 0
			})
		}
		for i := range l.Tasks {
			i := i
			if len(l.Tasks) > 1 {
				add(func(c *Scenario) bool { c.Lib.Tasks = append(c.Lib.Tasks[:i:i], c.Lib.Tasks[i+1:]...); return true })
			}
		}
		if n := len(l.Choices); n > 0 {
			add(func(c *Scenario) bool { c.Lib.Choices = c.Lib.Choices[:n/2]; return true })
			add(func(c *Scenario) bool { c.Lib.Choices = c.Lib.Choices[:n-1]; return true })
			for i := range l.Choices {
				i := i
				if l.Choices[i] != 0 {
					add(func(c *Scenario) bool { c.Lib.Choices[i] = 0; return true })
				}
			}
		}
		for i := range l.Preempt {
			i := i
			add(func(c *Scenario) bool {
				c.Lib.Preempt = append(c.Lib.Preempt[:i:i], c.Lib.Preempt[i+1:]...)
				return true
			})
		}
	}
	return out
}
