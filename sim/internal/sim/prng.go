package sim

import "math/bits"

// Rand is xoshiro256** seeded through splitmix64. Every choice of a
// simulated run is drawn from one of these; Fork gives labelled
// sub-streams so that adding draws in one generator does not shift another.
type Rand struct{ s [4]uint64 }

func splitmix(x *uint64) uint64 {
	*x += 0x9e3779b97f4a7c15
	z := *x
	z = (z ^ (z >> 30)) * 0xbf58476d1ce4e5b9
	z = (z ^ (z >> 27)) * 0x94d049bb133111eb
	return z ^ (z >> 31)
}

func NewRand(seed uint64) *Rand {
	r := &Rand{}
	x := seed
	for i := range r.s {
		r.s[i] = splitmix(&x)
	}
	return r
}

func hashString(s string) uint64 {
	h := uint64(1469598103934665603)
	for i := 0; i < len(s); i++ {
		h ^= uint64(s[i])
		h *= 1099511628211
	}
	return h
}

// Mix derives a run seed from the batch seed, a label and an index.
func Mix(seed uint64, label string, i uint64) uint64 {
	x := seed ^ hashString(label)*0x9e3779b97f4a7c15 ^ (i+1)*0xd1342543de82ef95
	return splitmix(&x)
}

func (r *Rand) Uint64() uint64 {
	s := &r.s
	res := bits.RotateLeft64(s[1]*5, 7) * 9
	t := s[1] << 17
	s[2] ^= s[0]
	s[3] ^= s[1]
	s[1] ^= s[2]
	s[0] ^= s[3]
	s[2] ^= t
	s[3] = bits.RotateLeft64(s[3], 45)
	return res
}

func (r *Rand) Fork(label string) *Rand {
	return NewRand(r.Uint64() ^ hashString(label))
}

// Intn returns a value in [0,n). n<=0 gives 0.
func (r *Rand) Intn(n int) int {
	if n <= 0 {
		return 0
	}
	return int(r.Uint64() % uint64(n))
}

// Range returns a value in [lo,hi].
func (r *Rand) Range(lo, hi int) int {
	if hi <= lo {
		return lo
	}
	return lo + r.Intn(hi-lo+1)
}

func (r *Rand) Chance(num, den int) bool { return r.Intn(den) < num }

func (r *Rand) Float() float64 { return float64(r.Uint64()>>11) / float64(1<<53) }

func Pick[T any](r *Rand, xs []T) T { return xs[r.Intn(len(xs))] }

// Weighted picks an index according to weights.
func (r *Rand) Weighted(w []int) int {
	t := 0
	for _, x := range w {
		t += x
	}
	k := r.Intn(t)
	for i, x := range w {
		if k < x {
			return i
		}
		k -= x
	}
	return len(w) - 1
}
