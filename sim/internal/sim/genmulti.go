package sim

import (
	"regexp"
	"strings"
)

// Multi-document, multi-file workloads shared by C10, C18(a) and C19.

var idRe = regexp.MustCompile(`f\d+d\d+-[a-z0-9]{6}`)

// PieceClass labels a YAML piece (one document with its separator/comments)
// by what surrounds the data; computed from the text so that it stays true
// while the shrinker edits the scenario.
func PieceClass(piece string, j int) string {
	body := piece
	if j > 0 {
		body = strings.TrimPrefix(body, "---\n")
	}
	lines := strings.Split(body, "\n")
	content := -1
	lastContent := -1
	for k, l := range lines {
		t := strings.TrimSpace(l)
		if t == "" || strings.HasPrefix(t, "#") || t == "---" || t == "..." {
			continue
		}
		if content < 0 {
			content = k
		}
		lastContent = k
	}
	if content < 0 {
		if strings.TrimSpace(strings.ReplaceAll(body, "---", "")) == "" {
			return "blank"
		}
		if j == 0 {
			return "comment-only-first"
		}
		return "comment-only-mid"
	}
	trailing := false
	for _, l := range lines[lastContent+1:] {
		if strings.HasPrefix(strings.TrimSpace(l), "#") || strings.TrimSpace(l) == "..." {
			trailing = true
		}
	}
	head := strings.Join(lines[:content], "\n")
	cls := "plain"
	switch {
	case j == 0 && strings.HasPrefix(head, "---") && strings.Contains(head, "#"):
		cls = "separator-then-comments"
	case j == 0 && strings.HasPrefix(head, "---"):
		cls = "leading-separator"
	case j == 0 && strings.Contains(head, "#") && strings.Contains(head, "---"):
		cls = "comments-then-separator"
	case j == 0 && strings.Contains(head, "#"):
		cls = "leading-comments"
	case j > 0 && strings.Contains(head, "#"):
		cls = "separator-comment"
	case strings.TrimSpace(head) == "" && head != "":
		cls = "leading-blank-lines"
	}
	if trailing {
		if cls == "plain" {
			return "trailing-comment"
		}
		return cls + "+trailing-comment"
	}
	return cls
}

// SoloText is the text of piece j as a stand-alone single-document file.
func SoloText(piece string, j int) string {
	if j > 0 {
		return strings.TrimPrefix(piece, "---\n")
	}
	return piece
}

type MultiOpts struct {
	MaxFiles   int
	MaxDocs    int
	PlainOnly  bool // only the plain class
	Full       bool // documents carry every schema key (for total traversals)
	Big        bool // some documents carry a long scalar so that output crosses the 4 KiB buffer boundaries
	AllowStdin bool
	AllowEmpty bool
	Format     string // "yaml" | "json" | one-document formats
}

// GenMultiFiles builds the input files (arg order) of a multi-file run.
func GenMultiFiles(r *Rand, o MultiOpts) []File {
	nf := r.Range(1, o.MaxFiles)
	var files []File
	stdinAt := -1
	if o.AllowStdin && r.Chance(1, 6) {
		stdinAt = r.Intn(nf)
	}
	for i := 0; i < nf; i++ {
		name := "f" + string(rune('1'+i)) + "." + extOf(o.Format, r)
		if i == stdinAt {
			name = "-"
		}
		f := File{Name: name, Mode: 0644}
		switch o.Format {
		case "yaml":
			f.Docs = genYAMLPieces(r, i, o)
		case "json":
			nd := r.Range(1, o.MaxDocs)
			if o.AllowEmpty && r.Chance(1, 10) {
				nd = 0
			}
			for j := 0; j < nd; j++ {
				f.Docs = append(f.Docs, GenJSONDoc(r.Fork("json"), DocID(r, i, j), r.Chance(1, 4)))
			}
		default:
			fi := FormatByName(o.Format)
			f.Docs = []string{fi.Gen(r.Fork(o.Format), DocID(r, i, 0))}
		}
		if len(f.Docs) == 0 {
			f.Data = Bytes("")
		}
		files = append(files, f)
	}
	return files
}

func extOf(format string, r *Rand) string {
	switch format {
	case "yaml":
		return Pick(r, []string{"yaml", "yml", "yaml"})
	case "props":
		return "properties"
	case "base64", "uri":
		return "txt"
	}
	return format
}

func genYAMLPieces(r *Rand, i int, o MultiOpts) []string {
	nd := r.Range(1, o.MaxDocs)
	if o.AllowEmpty && r.Chance(1, 10) {
		return nil // empty file
	}
	if !o.PlainOnly && r.Chance(1, 14) {
		return []string{Pick(r, []string{"# just a comment\n", "# two\n# lines\n", "---\n# after sep\n"})}
	}
	g := &DocGen{R: r.Fork("doc"), Plain: o.PlainOnly || r.Chance(1, 2), Full: o.Full}
	var pieces []string
	for j := 0; j < nd; j++ {
		body := g.Doc(DocID(r, i, j)).YAML()
		if o.Big && r.Chance(1, 2) {
			body += "pad: \"" + strings.Repeat(Pick(r, []string{"x", "ab", "lorem "}), r.Range(1500, 5000)) + "\"\n"
		}
		piece := body
		if !o.PlainOnly {
			switch {
			case j == 0:
				switch r.Weighted([]int{10, 3, 3, 1, 1, 1}) {
				case 1:
					piece = "---\n" + body
				case 2:
					piece = Pick(r, []string{"# header\n", "# one\n# two\n", "# header\n\n"}) + body
				case 3:
					piece = "---\n# after separator\n" + body
				case 4:
					piece = "# before separator\n---\n" + body
				case 5:
					piece = "\n\n" + body
				}
			default:
				switch r.Weighted([]int{12, 2, 1}) {
				case 1:
					piece = "# head of next doc\n" + body
				case 2:
					if r.Chance(1, 3) {
						piece = "# only a comment\n"
					}
				}
			}
			if r.Chance(1, 12) && !strings.HasPrefix(PieceClass(piece, 0), "comment-only") {
				piece += Pick(r, []string{"# trailing\n", "...\n"})
			}
		}
		if j > 0 {
			piece = "---\n" + piece
		}
		pieces = append(pieces, piece)
	}
	return pieces
}

// DocRef names one document of a layout.
type DocRef struct {
	FileIndex int
	DocIndex  int
	Name      string
	Piece     string
	Class     string
	ID        string
}

// LayoutOf lists the documents of the given files in processing order.
func LayoutOf(files []File, format string) []DocRef {
	var out []DocRef
	for i, f := range files {
		if f.Missing || f.Dir {
			continue
		}
		for j, p := range f.Docs {
			cls := "plain"
			if format == "yaml" {
				cls = PieceClass(p, j)
			}
			out = append(out, DocRef{FileIndex: i, DocIndex: j, Name: f.Name, Piece: p, Class: cls, ID: idRe.FindString(p)})
		}
	}
	return out
}
