package sim

import (
	"fmt"
	"os"
	"syscall"
)

func DeviceOf(fi os.FileInfo) uint64 {
	if st, ok := fi.Sys().(*syscall.Stat_t); ok {
		return uint64(st.Dev)
	}
	return 0
}

func CheckByID(id string) Check {
	switch id {
	case "C10":
		return C10{}
	case "C11":
		return C11{}
	case "C12":
		return C12{}
	case "C18":
		return C18{}
	case "C19":
		return C19{}
	}
	return nil
}

// Replay re-executes a replay file in fresh processes and reports whether
// the recorded violation shows again.
func Replay(w *World, verifDir, path string) int {
	sc, err := LoadScenario(path)
	if err != nil {
		fmt.Println("HARNESS: cannot load", path, err)
		return 2
	}
	chk := CheckByID(sc.Prop)
	if chk == nil {
		fmt.Println("HARNESS: unknown property in replay file:", sc.Prop)
		return 2
	}
	ctx := &Ctx{W: w, Slot: 0, Stats: NewStats(), Tier: "replay", cache: &refCache{m: map[string]*Outcome{}}, Quiet: true}
	vs := chk.Judge(ctx, sc)
	if len(vs) == 0 {
		fmt.Printf("replay %s: property %s holds on this scenario\n", path, sc.Prop)
		return 0
	}
	for _, v := range vs {
		fmt.Printf("VIOLATION property=%s replay=%s\n  %s\n", v.Prop, path, v)
	}
	return 1
}

func SelfTest(w *World, verifDir, tier string, seed uint64) int {
	fmt.Println("selftest: not built yet")
	return 2
}
