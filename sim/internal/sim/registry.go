package sim

import (
	"fmt"
	"os"
	"strings"
	"sync"
	"sync/atomic"
	"syscall"
)

func DeviceOf(fi os.FileInfo) uint64 {
	if st, ok := fi.Sys().(*syscall.Stat_t); ok {
		return uint64(st.Dev)
	}
	return 0
}

func CheckByID(id string) Check {
	switch id {
	case "C10":
		return C10{}
	case "C11":
		return C11{}
	case "C12":
		return C12{}
	case "C18":
		return C18{}
	case "C19":
		return C19{}
	}
	return nil
}

// Replay re-executes a replay file in fresh processes and reports whether
// the recorded violation shows again.
func Replay(w *World, verifDir, path string) int {
	sc, err := LoadScenario(path)
	if err != nil {
		fmt.Println("HARNESS: cannot load", path, err)
		return 2
	}
	chk := CheckByID(sc.Prop)
	if chk == nil {
		fmt.Println("HARNESS: unknown property in replay file:", sc.Prop)
		return 2
	}
	ctx := &Ctx{W: w, Slot: 0, Stats: NewStats(), Tier: "replay", cache: &refCache{m: map[string]*Outcome{}}, Quiet: true}
	vs := chk.Judge(ctx, sc)
	if len(vs) == 0 {
		fmt.Printf("replay %s: property %s holds on this scenario\n", path, sc.Prop)
		return 0
	}
	for _, v := range vs {
		fmt.Printf("VIOLATION property=%s replay=%s\n  %s\n", v.Prop, path, v)
	}
	return 1
}

// SelfTest proves the simulator's own determinism on a sample: every scenario
// is executed three times (GOMAXPROCS 1/4/16, different sandbox paths), at two
// driver worker counts, and the normalised traces and all observable results
// are compared.
func SelfTest(w *World, verifDir, tier string, seed uint64) int {
	n := 30
	if tier == "thorough" {
		n = 500
	}
	type item struct {
		id string
		sc *Scenario
	}
	stats := NewStats()
	cache := &refCache{m: map[string]*Outcome{}}
	var items []item
	gctx := &Ctx{W: w, Slot: 0, Stats: stats, Tier: tier, cache: cache, Quiet: true}
	for _, id := range []string{"C10", "C11", "C12", "C19", "C18"} {
		chk := CheckByID(id)
		for i := 0; i < n; i++ {
			sc := chk.Generate(gctx, NewRand(Mix(seed, "selftest"+id, uint64(i))), i)
			if sc != nil && strings.Contains(sc.Strace, "when=") {
				// strace counts `when=N` per thread and the Go runtime picks the thread: this fault kind is the one
				// declared source of nondeterminism of the simulator (evidence from it is marked probabilistic)
				continue
			}
			if sc != nil {
				sc.Prop = id
				items = append(items, item{id, sc})
			}
		}
	}
	// two-process scenarios with their gate resolved (the check does that while judging): the interleaving of
	// the two processes is the simulator's decision and must replay like everything else
	np := 20
	if tier == "thorough" {
		np = 200
	}
	for i := 0; i < np; i++ {
		sc := genPeerScenario(NewRand(Mix(seed, "selftest-peers", uint64(i))))
		alone := w.Run(&Scenario{Kind: "proc", Argv: sc.Argv, Files: sc.Files, TmpOther: sc.TmpOther}, RunOpts{Slot: 1999})
		run := resolveGate(sc, alone)
		run.Prop = "C18"
		items = append(items, item{"C18", run})
	}
	fmt.Printf("selftest: %d scenarios x 3 executions x 2 worker counts\n", len(items))
	type obs struct{ trace, out string }
	observe := func(slot int, sc *Scenario, gmp int) obs {
		if sc.Kind == "lib" || sc.Lib != nil {
			mode := sc.Lib.Mode
			if mode == "race" {
				mode = "interleave"
			}
			r := w.RunLib(w.LibSim, mode, sc, 0, RunOpts{Slot: slot, GOMAXPROCS: gmp})
			var b strings.Builder
			for _, x := range r.Results {
				fmt.Fprintf(&b, "%d|%s|%s;", x.Job, x.Out, x.Err)
			}
			return obs{trace: r.ScheduleSig + fmt.Sprint(r.Yields, r.Switches, r.Sites), out: b.String() + fmt.Sprint(r.Exit, r.Signal)}
		}
		o := w.Run(sc, RunOpts{Slot: slot, GOMAXPROCS: gmp})
		var tb strings.Builder
		for _, e := range o.Events {
			fmt.Fprintf(&tb, "%d %d %s %s %d %s %s;", e.Seq, e.Yields, e.Kind, maskSite(e.Site), e.Occ, e.Decision, maskSite(e.Info))
		}
		return obs{trace: tb.String(), out: fmt.Sprintf("%d|%d|%s|%s|%s|%s|%d|%s", o.Exit, o.Signal, o.Stdout, stderrKey(o), filesDigest(o.Files), o.PeerRan, o.PeerExit, o.PeerStdout)}
	}
	bad := 0
	var mu sync.Mutex
	results := make([][]obs, len(items))
	for _, workers := range []int{2, 16} {
		var wg sync.WaitGroup
		var next int64 = -1
		for wk := 0; wk < workers; wk++ {
			wg.Add(1)
			go func(slot int) {
				defer wg.Done()
				for {
					i := int(atomic.AddInt64(&next, 1))
					if i >= len(items) {
						return
					}
					for k, gmp := range []int{1, 4, 16} {
						o := observe(2000+slot*3+k, items[i].sc, gmp)
						mu.Lock()
						results[i] = append(results[i], o)
						mu.Unlock()
					}
				}
			}(wk)
		}
		wg.Wait()
	}
	knownFM := 0
	for i, rs := range results {
		for _, o := range rs[1:] {
			if o.out != rs[0].out {
				argv := strings.Join(items[i].sc.Argv, " ")
				if strings.Contains(argv, "--front-matter") && strings.Contains(argv, "filename") {
					knownFM++
					break
				}
				fmt.Printf("selftest: OBSERVABLE outcome differs between executions of one scenario (that is a C18 violation, see ./check C18): %s %v\n  A: %q\n  B: %q\n  scenario: %s\n", items[i].id, items[i].sc.Argv, clip([]byte(rs[0].out), 600), clip([]byte(o.out), 600), clip(items[i].sc.JSON(), 1500))
				bad++
				break
			}
			if o.trace != rs[0].trace {
				fmt.Printf("HARNESS: trace differs between executions of one scenario with equal outcome (simulator nondeterminism): %s %v\n", items[i].id, items[i].sc.Argv)
				bad++
				break
			}
		}
	}
	fmt.Printf("selftest: scenarios=%d executions=%d divergent=%d (front-matter filename known finding: %d)\n", len(items), len(items)*6, bad, knownFM)
	if bad > 0 {
		return 2
	}
	return 0
}

// GenerateOne reproduces scenario number index of the batch with the given seed.
func GenerateOne(w *World, chk Check, seed uint64, index int) *Scenario {
	ctx := &Ctx{W: w, Slot: 0, Stats: NewStats(), Tier: "gen", cache: &refCache{m: map[string]*Outcome{}}, Quiet: true}
	sc := chk.Generate(ctx, NewRand(Mix(seed, chk.ID(), uint64(index))), index)
	if sc != nil {
		sc.Prop = chk.ID()
		sc.Seed = seed
		sc.Index = index
	}
	return sc
}
