package sim

import "strings"

// Eval-all evaluates an expression once over all documents: an expression
// with k places that iterate over the matches yields n^k results for n
// documents (jq-like cartesian semantics), and yq copies documents for each.
// `(.c.x ref $r | $r = 7) | ((.d[5] // 100) | . += .a)` gives n^6 results: 64
// for two documents in 0.04 s, 4096 for four in 52 s, hours for six. That is
// a cost the user asked for, not a hang. A run in eval-all mode that does not
// end is therefore reported as a hang only if it also does not end on the
// smallest multi-document history (the first two documents); otherwise the
// growth is the explanation and the scenario is counted, not reported.

// isEvalAll reports whether argv runs the eval-all sub-command.
func isEvalAll(argv []string) bool {
	return len(argv) > 0 && (argv[0] == "ea" || argv[0] == "eval-all")
}

// firstTwoDocuments cuts the input files (given in argument order) down to
// their first two documents; ok is false when that cannot be done from the
// scenario's own record of the documents.
func firstTwoDocuments(sc *Scenario, names []string) (*Scenario, bool) {
	red := sc.Clone()
	red.Plan = Plan{}
	red.Strace = ""
	left := 2
	keep := map[string]bool{}
	total := 0
	for _, n := range names {
		f := red.File(n)
		if f == nil || f.Missing || f.Dir || f.Fifo {
			continue
		}
		if len(f.Docs) == 0 {
			return nil, false // raw data: the scenario does not know where its documents end
		}
		total += len(f.Docs)
		if left == 0 {
			continue
		}
		if len(f.Docs) > left {
			f.Docs = f.Docs[:left]
		}
		left -= len(f.Docs)
		keep[n] = true
	}
	if total < 3 || left > 0 {
		return nil, false // already at most two documents: nothing smaller to compare with
	}
	var argv []string
	isName := map[string]bool{}
	for _, n := range names {
		isName[n] = true
	}
	for _, a := range red.Argv {
		if isName[a] && !keep[a] {
			continue
		}
		argv = append(argv, a)
	}
	red.Argv = argv
	return red, true
}

// inputNames lists the arguments that name input files of the scenario.
func inputNames(sc *Scenario) []string {
	var names []string
	for i, a := range sc.Argv {
		if i == 0 || strings.HasPrefix(a, "-") && a != "-" {
			continue
		}
		if f := sc.File(a); f != nil && !strings.HasSuffix(a, ".yq") && !strings.HasSuffix(a, ".txt") {
			names = append(names, a)
		}
	}
	return names
}

// ExplainedByCrossProduct: the eval-all run did not end, the same run over the
// first two documents does.
func ExplainedByCrossProduct(c *Ctx, sc *Scenario, names []string) bool {
	if !isEvalAll(sc.Argv) {
		return false
	}
	if len(names) == 0 {
		names = inputNames(sc)
	}
	red, ok := firstTwoDocuments(sc, names)
	if !ok {
		return false
	}
	o := c.Exec(red)
	if o.TimedOut || o.Exit == ExitBudget || o.Exit == ExitPoll {
		return false
	}
	if !c.Quiet {
		c.Count("probe.eval_all_growth_not_reported_as_hang")
	}
	return true
}

// evalModeOf returns the same command line in sequence mode.
func evalModeOf(argv []string) []string {
	if !isEvalAll(argv) {
		return argv
	}
	return append([]string{"e"}, argv[1:]...)
}

var _ = strings.TrimSpace
