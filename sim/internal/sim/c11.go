package sim

import (
	"fmt"
	"os"
	"regexp"
	"strconv"
	"strings"
	"time"
)

// C11 — every input is answered with a result or an error, never a crash or a hang.
type C11 struct{}

func (C11) ID() string    { return "C11" }
func (C11) Level() string { return "exploration" }

func (C11) Describe() CheckInfo {
	return CheckInfo{
		Rule: "Each evaluation is one run of the real yq binary on a document of one of the ten input formats that is valid, or damaged by 1-3 seeded storage faults (truncation at byte k, bit flip, zeroed / duplicated / stale / inserted block), delivered under a seeded short-read schedule, optionally with a read EIO at byte k or a write error at byte k of the output, with a grammar-generated, probe or damaged (--from-file) expression and any output format. Oracles: O11.1 exit in {0,1} and no panic / fatal error / goroutine dump / foreign signal; O11.2 termination within the step budget (hook-counted) with a wall-clock backstop; O11.3 exit 1 implies a message. Non-trivial = at least one storage, read or write fault was applied; distinct = distinct (trace signature, exit, stderr class).",
		Assumptions: []string{
			"the clause `arbitrary expression on healthy input` has no fault or schedule in it: it is reached only by the fault-free configuration of the same simulator and is not claimed to be decided",
			"resource exhaustion on adversarial valid input (alias bombs) is outside the generator; RLIMIT_AS=4GiB is only a guard",
			"hangs inside third-party parsers are caught by the wall-clock watchdog (20 s), everything with a hook by the deterministic step budget",
		},
		Real:    []string{"yq binary (tag verif): all decoders, lexer/parser, operators, all encoders", "the damaged bytes are really in the file"},
		Stubbed: []string{"short-read reader, EIO at byte k", "failing writer under stdout"},
	}
}

var c11Probes = []string{
	".[\"_\"]", ".[\"__\"]", "pick([\"__\"])", ".[] | .[\"_1\"]", "has(\"_\")", ".[\"_\"] = 1", "[1, 2] | .[\"_\"]", "[1, 2] | pick([\"__\"])", "[1, 2] | has(\"_\")", "[1, 2] | .[\"0_\"]", "[1, 2] | .[\"-\"]", "[1, 2] | .[\"+\"]", "[1, 2] | .[\"0x\"]",
	"{\"name\": \"sam\", \"kind\": \"owner\"} | contains({\"owner\": \"sam\"})", "{\"a\": \"b\"} | contains({\"b\": 1})", "contains({\"x\": .})", ". as $d | contains($d)", "[.. | select(kind == \"map\")] | .[0] | contains({\"x\": \"y\"})", "{\"a\": \"k\", \"b\": \"k\"} | contains({\"k\": \"k\"})",
	// one operator inside another's scope: date layouts around the ordering operators, elements without the key
	"with_dtf(\"2006\"; sort_by(.t))", "with_dtf(\"Jan 2\"; sort_by(.missing))", "with_dtf(\"2006-01-02\"; .. | select(kind == \"seq\") | sort_by(.k))", "with_dtf(\"Monday\"; [..] | sort_by(.a))", "with_dtf(\"2006\"; group_by(.t))", "with_dtf(\"2006\"; unique_by(.x))",
	"with_dtf(\"2006\"; [.. | select(kind == \"map\")] | sort_by(.nope))", "with_dtf(\"15:04\"; sort)", "with_dtf(\"\"; sort_by(.a))", "with_dtf(\"2006\"; .[] |= sort_by(.v))", "with_dtf(\"2006\"; to_entries | sort_by(.value.t))", "[.. | select(kind == \"map\")] | sort_by(.nope)",
	".. | parent", ".. | parent(9)", "parent | parent", ".[] | {\"x\": .}", "[] | .[] | {\"x\": .}", ".nope[] | {\"x\": .}", "{\"a\": .nope[]}", "[.nope[] | {(.): 1}]",
	// a tag set by hand that disagrees with the kind of the node, then an operator or encoder that trusts tags
	"[[1,2,3] | . tag=\"!!map\"] | pivot", "[{\"a\": 1} | . tag=\"!!seq\"] | pivot", ".. |= (. tag=\"!!map\")", "(.. | select(kind == \"seq\")) tag = \"!!map\"", "(.. | select(kind == \"map\")) tag = \"!!seq\"", "(.. | select(kind == \"scalar\")) tag = \"!!map\"",
	"[1, 2] | . tag = \"!!map\" | keys", "[1, 2, 3] | . tag = \"!!map\" | to_entries", "{\"a\": 1} | . tag = \"!!seq\" | .[0]", "[1, 2, 3] | . tag = \"!!map\" | .[]", "[1, 2, 3] | . tag = \"!!map\" | sort_keys(.)", "[[1, 2, 3] | . tag = \"!!map\"] | unique", "[1, 2, 3] | . tag = \"!!map\" | . * {\"a\": 1}",
	"[1, 2, 3] | . tag = \"!!map\" | has(\"a\")", "[1, 2, 3] | . tag = \"!!map\" | del(.a)", "[1, 2, 3] | . tag = \"!!map\" | with_entries(.)", "[1, 2, 3] | . tag = \"!!map\" | map_values(.)", "[1, 2, 3] | . tag = \"!!map\" | pick([\"a\"])", "\"x\" | . tag = \"!!seq\" | .[0]", "\"x\" | . tag = \"!!map\" | keys", "[1, 2, 3] | . tag = \"!!map\" | .a = 1",
	"[1, 2, 3] | . tag = \"!!map\" | [.] | group_by(.a)", "[1, 2, 3] | . tag = \"!!map\" | . == {\"a\": 1}", "[[1, 2, 3] | . tag = \"!!map\"] - [{\"a\": 1}]", "[1, 2, 3] | . tag = \"!!map\" | contains({\"a\": 1})", "[1, 2, 3] | . tag = \"!!map\" | @props", "[1, 2, 3] | . tag = \"!!map\" | to_xml", "[1, 2, 3] | . tag = \"!!map\" | @json",
	// literals and token sequences at the edges of the lexer
	"\"\\u12\"", "\"abc\\u\"", ".a = \"x\\u1\"", "\"\\t\\r\\n\\\\\"", "\"\\x\"", "\"\\", "\"\\u00e9\\ud83d\"", "\"\\(\"", "\"\\(.a\"", "\"\\()\"", "\"a\\(\"b\")c\"",
	"[:1]", "[:]", "[: .a]", "[1:]", ".[:]", ".a[:2]", "$x[:2]", "[", "]", "[]]", "{:}", "{\"a\":}", ".[", ".a.[", "..[", "|", "| .", ". |", ",", "(,)", "()", "((((((((((.))))))))))", ".a as", "as $x", "$", "$ | .", "@", "@nope", ".a |= ", "= 1", "1 =", "//", ". // ", "? .", ".a?[]", ".[]?[]?", "#", "# only a comment", ".a # c", "0x", "0o9", "1e", "1e400", "-", "--1", ".a - - 1", "1_0", ".e.1e2", "\"\"\"\"", "'a'", "`.a`",
	// comments and keys that are legal for a node but awkward for an encoder
	".. head_comment=\"\\n\\n\\n\"", ". foot_comment=\"\\n\"", ".. line_comment=\"--\"", ".. head_comment=\"*/ --> ]]>\"", ".. line_comment=\"a\\nb\"", ". head_comment=\"\"", ".. |= (. head_comment=\"\\r\")",
	"[{\"name\": \"n1\", \"size\": 1}, [\"x\", \"y\", \"name\"]]", "[[\"a\"], {\"a\": 1}]", "[{\"a\": 1}, 2]", "[[1, 2], \"x\"]", "[{\"a\": 1}, [\"a\"]] | @csv", "[{\"a\": 1}, [\"b\", \"a\"]] | @tsv", "[{}, []]", "[[], {}]",
	"{\"<<\": 1}", "{\"<<\": \"text\"} | explode(.)", "[{\"<<\": [1, 2]}] | explode(.)", "{\"a\": {\"<<\": null}}", ".[\"<<\"] = .", "with_entries(.key = \"<<\")",
	"\"ab\" * 9223372036854775807", ".[] * 4611686018427387904", "\"banana\" * 0x7fffffffffffffff", "9223372036854775807 * \"xy\"", "\"x\" * 10000001", "\"abc\" * -1", ".. |= (. * 3000000000)",
	".[9223372036854775807]", ".[-9223372036854775808]", ".[1:9223372036854775807]", "9223372036854775807 + 1", "-9223372036854775808 - 1", "9223372036854775807 % -1", "-9223372036854775808 / -1",
	".", "..", "...", ".. | select(. == \"x\")", "sort", "sort_by(.a)", "sort_by(.id)", ".[] | sort_keys(.)", "to_entries", "keys", "length", ".. | tag", "flatten", "unique", "group_by(.a)",
	".[0]", ".[-1]", ".[1:3]", ".[-2:]", "del(.[0])", "map(.)", "with_entries(.)", "explode(.)", ".. | anchor", "to_json", "@csv", "@tsv", "@base64d", "@base64", "from_yaml", "split_doc", ".. | path", "path(..)", "pivot", "min", "max", "any", "all", "reverse",
	".. style=\"flow\"", ".. |= .", "[.[] | tag]", ".a.b.c = 1", ". * .", ". + .", ". - .", ".[] / 2", ".[] % 2", "[.[] | . * 2]", "... comments=\"\"", ".. | line", ".. | column", "[.. | key]", "[.. | parent]", ".. | parent(3)",
	"with(.[]; . = 1)", ".[] as $x | $x", ".[] as $x ireduce (0; . + $x)", "map_values(. + 1)", "to_entries | from_entries", "[paths]", "del(..)", "del(.[])", ".[] |= empty", "select(.. == 1)", "unique_by(.a)", "any_c(. == 1)", "all_c(. == 1)",
	"contains(.)", "has(\"a\")", "has(0)", ".[] | has(0)", "@yaml", "@json", "@xml", "@props", "@sh", "@uri", "@urid", "to_xml", "from_json", "from_xml", "from_props", "from_csv", "from_tsv", "to_number", "to_string", "upcase", "trim", "split(\"\")", "join(\",\")", "sub(\"a\", \"b\")", "test(\".\")", "match(\".\")", "capture(\"(?P<x>.)\")",
	".. | (select(kind == \"seq\") | sort)", ".. | (select(kind == \"map\") | keys)", ".. | (select(kind == \"seq\") | .[0])", ".. | select(tag == \"!!str\") | length", "[.. | select(tag == \"!!int\")] | sort", "[..] | sort", "[..] | unique", "[..] | group_by(tag)", "[..] | min", "[..] | max", "[..] | reverse | .[0]",
	// more keys / indices asked for than the collection has entries (also on the empty one)
	"omit([\"a\", \"b\", \"c\", \"d\", \"e\", \"f\", \"g\", \"h\", \"i\", \"j\", \"k\", \"l\"])", "{} | omit([\"a\"])", "{\"a\": 1} | omit([\"a\", \"b\", \"c\"])", "[] | omit([0])", "[1] | omit([0, 1, 2, 3])", ".[] |= omit([\"a\", \"b\", \"c\", \"d\", \"e\", \"f\"])", "{} | pick([\"a\", \"b\"])", "[] | pick([0, 1])",
	// one element deleted twice by one del
	"del(.[0], .[0])", "del(.a[1], .a[1])", "[1, 2] | del(.[1], .[1])", "[1, 2] | del(.[0], .[1], .[1])", "del(.e[-1], .e[-1])", "del(.d[], .d[0])", "[1] | del(.[0], .[0])", "del(.. | select(. == 1), .d[0])",
	"omit([\"a\"])", "pick([\"a\", \"id\"])", "pick([0])", "array_to_map", ".. | alias", ".. | style", "format_datetime(\"2006\")", "to_unix", "from_unix", "tz(\"UTC\")", "eval(\".\")", "eval(.id)", "eval(.a)", "eval(.e)", ".p | eval(.)", "eval(\"eval(.a)\")", "collect", "filter(.)", "flatten(1)", "first", "kind", "is_key", "document_index", "filename", "file_index",
	"\" \" | from_json", "\"\" | from_yaml", "\"\\n\" | from_csv", "\" \" | from_yaml", "\"\\t\" | from_props", "\" \" | @jsond", "\" \" | from_xml", "\"\" | @base64d", ".b | from_json", "[.. | select(tag == \"!!str\") | from_yaml]",
	".a alias = \"nope\"", ".id alias = \"nope\"", ".. alias = \"x\"", ".a anchor = \"x\" | .b alias = \"x\"", ".[] alias = \"q\"", ".a alias |= \"z\"", ".c alias = \"missing\" | explode(.)",
	"flatten( 1 )", "to_json( 0 )", "parent( 1 )", "to_yaml( 2 )", "to_xml( 1 )", "flatten(1 )", "flatten( 1)", "parent(  2  )", "to_json(\t0)", "flatten()", "parent()", "to_json()",
	".a[", ".a |", "(", ")", "[", "{", "}", ".. |", "| .", ".[", "\"", ".a as", "$x", ".. | .. | ..", ".[] |= (.. | .)", "..|=\"x\"", ".a = .b = .c", ". as $x | $x | $x", "..[]", ".[][]", ".[].[]", "....", ".a.[0]", ".\"a\"", ".[\"a\"]", ".a?", ".[]?", "-1", "--1", "1 -", ".a //", "// .a",
}

var exprTokens = []string{
	".", "..", "...", ".a", ".b", ".[]", ".[0]", ".[-1]", ".[1:2]", "[", "]", "{", "}", "(", ")", "|", ",", ":", ";", "=", "|=", "+=", "-=", "*=", "+", "-", "*", "/", "%", "//", "==", "!=", ">", "<", ">=", "<=",
	"and", "or", "not", "as", "$x", "$", "ref", "select", "map", "sort_by", "sort", "keys", "length", "has", "del", "with", "with_entries", "to_entries", "from_entries", "ireduce", "eval", "env(HOME)", "strenv(X)",
	"\"s\"", "\"\\(.)\"", "\"", "1", "-1", "0x10", "1.5", "1e3", "true", "null", "~", "di", "fi", "filename", "path", "parent", "key", "line", "column", "tag", "style", "kind", "anchor", "alias", "explode", "split_doc",
	"line_comment", "head_comment", "comments=", "@json", "@yaml", "@base64", "@base64d", "@csv", "to_json(0)", "from_yaml", "test", "match", "capture", "sub", "split", "join", "contains", "unique", "unique_by", "group_by",
	"flatten(1)", "flatten", "pick", "omit", "pivot", "reverse", "min", "max", "any", "all", "any_c", "all_c", "first", "collect", "filter", "map_values", "load(\"x\")", "load_str", "error", "to_number", "to_string", "trim", "upcase",
	"parent(2)", "*+", "*d", "*?", "=c", "|=c", ".\"quoted key\"", ".a?", ".[]?", "#c", "\n", "\t", "''", "`", "^", "&", "!", "?", "@", "\\",
}

type damage struct {
	Kind string `json:"kind"`
	At   int    `json:"at"`
	Len  int    `json:"len,omitempty"`
	Bit  int    `json:"bit,omitempty"`
	From int    `json:"from,omitempty"`
}

func applyDamage(r *Rand, data []byte, n int) ([]byte, []damage) {
	var ds []damage
	for k := 0; k < n; k++ {
		if len(data) == 0 {
			break
		}
		at := r.Intn(len(data))
		blk := Pick(r, []int{1, 2, 4, 8, 16, 64, 512})
		if at+blk > len(data) {
			blk = len(data) - at
		}
		switch r.Weighted([]int{25, 30, 12, 10, 10, 13, 4}) {
		case 6:
			// the final newline is missing (a file cut exactly at its last line)
			ds = append(ds, damage{Kind: "chop-final-newline", At: len(data)})
			data = []byte(strings.TrimRight(string(data), "\n"))
		case 0:
			if r.Chance(1, 2) {
				// cut right after a delimiter: the parser has just opened or closed something
				var cands []int
				for i, c := range data {
					if strings.IndexByte("]}\"'=:,>)\n", c) >= 0 {
						cands = append(cands, i+1)
					}
				}
				if len(cands) > 0 {
					at = Pick(r, cands)
				}
			}
			ds = append(ds, damage{Kind: "truncate", At: at})
			data = append([]byte{}, data[:at]...)
		case 1:
			bit := r.Intn(8)
			ds = append(ds, damage{Kind: "bitflip", At: at, Bit: bit})
			data = append([]byte{}, data...)
			data[at] ^= 1 << uint(bit)
		case 2:
			ds = append(ds, damage{Kind: "zero", At: at, Len: blk})
			data = append([]byte{}, data...)
			for i := 0; i < blk; i++ {
				data[at+i] = 0
			}
		case 3:
			ds = append(ds, damage{Kind: "duplicate", At: at, Len: blk})
			nd := append([]byte{}, data[:at+blk]...)
			nd = append(nd, data[at:at+blk]...)
			data = append(nd, data[at+blk:]...)
		case 4:
			from := r.Intn(len(data))
			ds = append(ds, damage{Kind: "stale", At: at, Len: blk, From: from})
			data = append([]byte{}, data...)
			for i := 0; i < blk && from+i < len(data); i++ {
				data[at+i] = data[from+i]
			}
		case 5:
			ins := []byte(Pick(r, []string{"\xff", "\xfe\xff", "\x00", "\xc3", "\xe2\x82", "\t", "\r", "&", "*", "<", "{", "[", "---\n", "\"", "'", "\\", "\xef\xbb\xbf", "%", "!!", "<<: ", "\n", ": ", "- ", "= ", "]]>", "<!--", "<?", "&#x0;", "1e999", "0x", "-", "9999999999999999999999"}))
			ds = append(ds, damage{Kind: "insert", At: at, Len: len(ins)})
			nd := append([]byte{}, data[:at]...)
			nd = append(nd, ins...)
			data = append(nd, data[at:]...)
		}
	}
	return data, ds
}

func (C11) Generate(c *Ctx, r *Rand, index int) *Scenario {
	sc := &Scenario{Kind: "proc", Meta: map[string]any{}}
	rs := r.Fork("shape")
	fi := Pick(rs, InputFormats)
	id := DocID(r, 0, 0)
	text := fi.Gen(r.Fork("doc"), id)
	if (fi.Name == "yaml" || fi.Name == "json") && rs.Chance(1, 3) {
		// multi-document stream
		fs := GenMultiFiles(r.Fork("multi"), MultiOpts{MaxFiles: 1, MaxDocs: 3, Format: fi.Name})
		text = string(fs[0].Bytes())
	}
	specialOdds := 100
	if v, err := strconv.Atoi(os.Getenv("C11_SPECIAL_ODDS")); err == nil && v > 0 {
		specialOdds = v // exploration aid: raise the share of adversarial legal inputs
	}
	if fi.Name == "yaml" && rs.Chance(1, specialOdds) {
		// adversarial but legal YAML: anchors that contain an alias to themselves, expression text that evaluates itself
		if rs.Chance(2, 3) {
			text = Pick(rs, []string{"b: &x {c: *x}\n", "a: &a [*a]\n", "a: &a\n  b: &b\n    c: *a\n    d: *b\n", "x: &x {<<: *x}\n", "id: 1\nl: &l\n  - 1\n  - *l\n"})
			sc.Meta["special"] = "cyclic-alias"
		} else {
			text = Pick(rs, []string{"a: \"eval(.a)\"\n", "e: eval(.e)\np: .p | eval(.)\na: eval(.e)\n"})
			sc.Meta["special"] = "eval-self-reference"
		}
		sc.WatchdogS = 10
	} else if fi.Name == "yaml" && rs.Chance(1, 6) {
		text = Pick(rs, []string{
			"a: &x [1, 2]\nb: *x\nc:\n  <<: {k: v}\n  d: e\n", "? [complex, key]\n: value\n? {m: 1}\n: 2\n", "a: !!binary aGVsbG8=\nb: !!set {x, y}\nc: !custom 3\nd: !!float .inf\ne: -.inf\nf: .nan\n",
			"- &a 1\n- *a\n- [*a, *a]\n", "a: |\n  block\n  text\nb: >-\n  folded\n  text\n", "--- !tag\na: 1\n...\n---\nb: 2\n", "base: &base\n  x: 1\nderived:\n  <<: *base\n  y: 2\nlist:\n  - <<: [*base]\n", "%YAML 1.1\n---\na: 1\n", "{a: 1, b: [1, {c: d}]}\n", "? a\n", "- - - 1\n    - 2\n", "a: 0o17\nb: 0x1F\nc: 1_000\nd: 2001-12-14t21:59:43.10-05:00\ne: ~\n",
			"\"<<\": 1\n", "a:\n  <<: text\nb: 2\n", "- <<: [1, 2]\n- <<: 3\n", "{\"<<\": {\"<<\": 1}}\n", "x: &x 1\ny:\n  <<: *x\n", "a:\n  <<: [{k: v}, 7]\n",
		})
	}
	if (fi.Name == "yaml" || fi.Name == "json") && sc.MetaString("special") == "" && rs.Chance(1, 40) {
		// deep nesting: two equal, deeply nested values (must stay fast: no resource finding is attached to this class)
		depth := rs.Range(20, 60)
		open, close := "{\"k\": ", "}"
		if rs.Chance(1, 3) {
			open, close = "[", "]"
		}
		nest := strings.Repeat(open, depth) + "1" + strings.Repeat(close, depth)
		text = "{\"id\": \"" + id + "\", \"a\": [" + nest + ", 2], \"b\": [" + nest + "], \"c\": " + nest + "}\n"
		sc.Meta["input"] = "deep-nesting"
		sc.Meta["deep"] = true
	}
	if fi.Name == "yaml" && sc.MetaString("special") == "" && sc.MetaString("input") == "" && rs.Chance(1, 50) {
		// files for --front-matter whose head never closes, cut off inside the closing separator
		text = Pick(rs, []string{"---\ntitle: x\n--", "---\na: 1\n-", "---\n--", "--", "---", "---\n", "---\ntitle: x\n---", "---\ntitle: x\n--\n", "-\n--\n---", "---\r\na: 1\r\n--"})
		sc.Meta["input"] = "front-matter-tail"
		sc.Meta["fmtail"] = true
	}
	if fi.Name == "lua" && rs.Chance(1, 200) {
		// Lua input is a program: one that does not end
		text = Pick(rs, []string{"while true do end\n", "local function f() return f() end\nreturn f()\n", "repeat until false\n"})
		sc.WatchdogS = 3
		sc.Meta["special"] = "lua-nonterminating-program"
	}
	if (fi.Name == "yaml" || fi.Name == "props") && sc.MetaString("special") == "" && sc.MetaString("input") == "" && rs.Chance(1, 60) {
		// values that mention each other in the ${..} notation of properties files: data, not templates
		n := rs.Range(20, 34)
		var b strings.Builder
		sep := ": "
		q := "\""
		if fi.Name == "props" {
			sep, q = " = ", ""
		}
		b.WriteString("a0" + sep + q + "xxxxxxxxxx" + q + "\n")
		for i := 1; i < n; i++ {
			b.WriteString(fmt.Sprintf("a%d%s%s${a%d}${a%d}%s\n", i, sep, q, i-1, i-1, q))
		}
		if rs.Chance(1, 3) {
			b.WriteString("c1" + sep + q + "${c2}" + q + "\nc2" + sep + q + "${c1}" + q + "\n")
		}
		text = b.String()
		sc.Meta["input"] = "reference-chain"
		sc.Meta["refchain"] = true
	}
	if fi.Name == "lua" && sc.MetaString("special") == "" && rs.Chance(1, 30) {
		// legal Lua whose result is not a tree: tables that contain themselves, shared tables
		text = Pick(rs, []string{"t = {}; t.a = t; return t\n", "t = {}\nt.a = t\n", "local a = {}\nlocal b = {a}\na[1] = b\nreturn {x = a}\n",
			"local s = {1, 2}\nreturn {a = s, b = s, c = {s, s}}\n", "local t = {}\nt[t] = 1\nreturn t\n", "return {[{}] = {}, [1.5] = 2, [true] = 3}\n",
			// sparse and huge integer keys: a table is not an array because its keys are numbers
			"return {[1]=\"a\",[300000000]=\"b\"}\n", "return {[2147483647]=true}\n", "return {1,nil,3}\n", "return {x = {[1]=1,[2]=2,[9007199254740992]=3}}\n", "return {[0]=1,[-1]=2,[1e300]=3}\n"})
		sc.Meta["input"] = "lua-table-graph"
		sc.Meta["deep"] = true // no damage on top
	}
	if fi.Name == "props" && rs.Chance(1, 300) {
		// a key path with an array index far beyond the data
		text = Pick(rs, []string{"a.1000000000 = x\n", "id = " + id + "\nd.99999999999 = 1\n"})
		sc.Meta["input"] = "huge-index-key"
		sc.Meta["deep"] = true
	}
	if sc.MetaString("special") == "" && rs.Chance(1, 25) {
		// not derived from a valid document at all
		n := rs.Range(1, 200)
		b := make([]byte, n)
		if rs.Chance(1, 2) {
			for i := range b {
				b[i] = byte(rs.Intn(256))
			}
		} else {
			const soup = "{}[]<>()=:;,.-_#&*!|'\"%@`~^?/\\ \t\n\r0123456789abcxyzéß"
			for i := range b {
				b[i] = soup[rs.Intn(len(soup))]
			}
		}
		text = string(b)
		sc.Meta["input"] = "arbitrary-bytes"
	}
	data := []byte(text)
	rd := r.Fork("damage")
	nDamage := rd.Weighted([]int{25, 50, 18, 7})
	if sc.MetaString("special") != "" || sc.MetaBool("deep") || sc.MetaBool("refchain") || sc.MetaBool("fmtail") {
		nDamage = 0
	}
	var ds []damage
	data, ds = applyDamage(rd, data, nDamage)
	ext := fi.Ext
	if ext == "" {
		ext = "txt"
	}
	name := "in." + ext
	sc.Files = []File{{Name: name, Data: Bytes(data), Mode: 0644}}
	if rs.Chance(1, 60) {
		sc.Files[0] = File{Name: name, Dir: true} // a directory where a file is expected
	}
	sc.Meta["format"] = fi.Name
	sc.Meta["damage"] = ds

	// expression
	var expr string
	if sc.MetaBool("refchain") {
		expr = Pick(rs, []string{".", ". | to_props", "@props", ".. | select(tag == \"!!str\") | @props", "to_props | from_props", "to_entries | from_entries", "[.[]] | @csv"})
	} else if sc.MetaBool("deep") && rs.Chance(2, 3) {
		expr = Pick(rs, []string{".a - .b", ".a == .b", ".a + .b", "[.c] - [.c]", ".c == .c", ".a | unique", "[.c, .c] | unique", ".a | contains(.b)", ".c * .c", "[.c, .c] | sort", ".. | length", "[..] | length", ".a | group_by(.)", ".c | to_json | from_json", "explode(.)", ".c | path(..)", "del(..)", ".c |= .", ".. style=\"flow\"", "to_entries", ".a - .a"})
	} else {
		switch rs.Weighted([]int{30, 40, 10, 20, 12}) {
		case 4:
			// token soup: a random sequence over the lexer's vocabulary
			n := rs.Range(2, 12)
			var parts []string
			for i := 0; i < n; i++ {
				parts = append(parts, Pick(rs, exprTokens))
			}
			expr = strings.Join(parts, Pick(rs, []string{" ", " ", ""}))
		case 0:
			expr = GenExpr(r.Fork("expr")).Combined()
		case 1:
			expr = Pick(rs, c11Probes)
		case 2:
			expr = Pick(rs, c11Probes) + " | " + Pick(rs, c11Probes)
		default:
			base := fi.IDPath
			expr = Pick(rs, []string{base, ".", base + " | " + Pick(rs, c11Probes), ".. | " + Pick(rs, c11Probes), "[" + Pick(rs, c11Probes) + "]", Pick(rs, c11Probes) + ", " + Pick(rs, c11Probes)})
		}
	}
	outFmt := Pick(rs, append([]string{"yaml", "json", "auto"}, OutputFormats...))
	if sc.MetaBool("refchain") && rs.Chance(1, 2) {
		outFmt = "props"
	}
	var argv []string
	if rs.Chance(1, 4) {
		argv = append(argv, "ea")
	}
	argv = append(argv, "-p="+fi.Name)
	if outFmt != "auto" {
		argv = append(argv, "-o="+outFmt)
	}
	for _, f := range []string{"-P", "-r", "-N", "-I0", "-I7", "-I-1", "-I=-3", "-I99", "-0", "-e", "--xml-strict-mode", "--csv-auto-parse", "--xml-keep-namespace", "--xml-raw-token", "--header-preprocess=false", "--string-interpolation=false", "--lua-globals", "--lua-unquoted", "--properties-array-brackets", "--xml-skip-directives", "--xml-skip-proc-inst", "-C", "-v", "--csv-auto-parse=false", "--tsv-auto-parse=false", "-M", "--unwrapScalar=false", "--xml-strict-mode=false"} {
		if rs.Chance(1, 22) {
			argv = append(argv, f)
		}
	}
	// a flag that belongs to a format is drawn more often when that format is in use
	for _, ff := range [][2]string{{"lua", "--lua-globals"}, {"lua", "--lua-unquoted"}, {"lua", "--lua-prefix=x = "}, {"lua", "--lua-suffix="}, {"xml", "--xml-strict-mode"}, {"xml", "--xml-keep-namespace"}, {"xml", "--xml-raw-token"},
		{"xml", "--xml-skip-directives"}, {"xml", "--xml-skip-proc-inst"}, {"xml", "--xml-attribute-prefix="}, {"xml", "--xml-content-name="}, {"props", "--properties-array-brackets"}, {"props", "--properties-separator="},
		{"csv", "--csv-auto-parse"}, {"csv", "--csv-auto-parse=false"}, {"csv", "--csv-separator=;"}, {"tsv", "--tsv-auto-parse"}, {"tsv", "--tsv-auto-parse=false"}, {"yaml", "--header-preprocess=false"}} {
		if (ff[0] == fi.Name || ff[0] == outFmt) && rs.Chance(1, 5) && !containsArg(argv, ff[1]) {
			argv = append(argv, ff[1])
		}
	}
	sc.Meta["keep_flags"] = []any{"-p=" + fi.Name}
	if rs.Chance(1, 12) {
		// no -p: the format comes from the file extension, which may name any format, also output-only ones
		newName := "in." + Pick(rs, []string{"yaml", "yml", "json", "xml", "properties", "props", "csv", "tsv", "toml", "lua", "sh", "s", "shell", "base64", "uri", "p", "j", "y", "x", "c", "t", "l", "txt", "YAML", "Json"})
		sc.Files[0].Name = newName
		name = newName
		var kept []string
		for _, a := range argv {
			if !strings.HasPrefix(a, "-p=") {
				kept = append(kept, a)
			}
		}
		argv = kept
		sc.Meta["keep_flags"] = []any{}
	}
	if rs.Chance(1, 8) {
		// the expression comes from a (possibly damaged) file
		eb := []byte(expr)
		if rs.Chance(1, 3) {
			// what people put at the top of an expression file
			eb = []byte(Pick(rs, []string{"#!/usr/bin/env yq", "#!/usr/bin/env yq\n", "# one\n# two", "# c\n" + expr, "\xef\xbb\xbf" + expr, strings.ReplaceAll(expr, " | ", " |\r\n") + "\r\n", expr + " \\", "# c\r\n" + expr + "\r\n", "\n\n" + expr + "\n# tail", ""}))
		} else if rd.Chance(1, 2) {
			var eds []damage
			eb, eds = applyDamage(rd, eb, rd.Range(1, 2))
			sc.Meta["expr_damage"] = eds
		}
		sc.Files = append(sc.Files, File{Name: "expr.yq", Data: Bytes(eb), Mode: 0644})
		argv = append(argv, "--from-file=expr.yq", name)
		sc.Meta["keep_flags"] = []any{"-p=" + fi.Name, "--from-file=expr.yq"}
	} else {
		argv = append(argv, "--expression="+expr, name)
		sc.Meta["keep_flags"] = []any{"-p=" + fi.Name, "--expression=" + expr}
	}
	if sc.MetaBool("fmtail") {
		argv = append([]string{Pick(rs, []string{"--front-matter=extract", "--front-matter=process"})}, argv...)
	} else if fi.Name == "yaml" && rs.Chance(1, 25) {
		// front matter and/or split output
		fm := Pick(rs, []string{"--front-matter=process", "--front-matter=extract", "-s=.id", "-s=.a", "--front-matter=process -s=.id", "-s=\"out_\" + $index"})
		argv = append(strings.Fields(fm), argv...)
	}
	if rs.Chance(1, 12) {
		// in-place, with an errno at one step of the protocol
		argv = append([]string{"-i"}, argv...)
		site := Pick(rs, []string{"tmp.create", "inplace.statTarget", "inplace.chmod", "input.open", "copy.openSrc", "copy.createDst", "copy.copy", "copy.sync", "inplace.closeTemp", "none"})
		switch site {
		case "none":
		case "inplace.closeTemp":
			sc.Plan.Steps = []StepFault{{Site: site, Occ: 1, Action: "closefault", Keep: int64(rs.Intn(20))}}
		default:
			sc.Plan.Steps = []StepFault{{Site: site, Occ: 1, Action: "error", Errno: Pick(rs, []string{"EACCES", "EIO", "ENOSPC", "EMFILE", "EROFS"})}}
		}
		sc.TmpOther = c.W.DiskRoot != "" && rs.Chance(1, 2)
	}
	if fi.Name == "yaml" && c.W.Strace != "" && rs.Chance(1, 20) {
		// split output into files while the process runs out of descriptors (EMFILE from some open on)
		// (hooks are inert in these runs, so there is no address-space guard either: the expression is kept to
		// ones that cannot reach the known padding defect of huge indices)
		simple := Pick(rs, []string{".", ".a", ".. | select(kind == \"scalar\")", ".e[]", "[.d]", ".c", "del(.a)", ".id"})
		argv = []string{"-s=.id", "-p=yaml", "--expression=" + simple, name}
		sc.Meta["keep_flags"] = []any{"-p=yaml", "--expression=" + simple}
		for i := len(sc.Files) - 1; i >= 0; i-- {
			if sc.Files[i].Name == "expr.yq" {
				sc.Files = append(sc.Files[:i], sc.Files[i+1:]...)
			}
		}
		sc.Strace = "openat:error=EMFILE:when=" + strconv.Itoa(Pick(rs, []int{3, 4, 5, 6, 7, 7, 7, 8, 9, 11, 14})) + "+" // the first create is the 7th open of a run (3rd of its thread)
		sc.NoHooks = true // the hook layer opens files of its own
		sc.Plan = Plan{}
		sc.WatchdogS = 8
	}
	sc.Argv = argv
	sc.Meta["target"] = "expr.yq" // never dropped as a whole by the shrinker
	// delivery and I/O faults
	rf := r.Fork("io")
	if rf.Chance(1, 2) {
		rp := ReaderPlan{Stream: "input", Chunks: genChunks(rf), ErrAt: -1, EOFWithData: rf.Chance(1, 4)}
		if rf.Chance(1, 5) {
			rp.ErrAt = int64(rf.Intn(len(data) + 1))
			rp.Errno = "EIO"
		}

		sc.Plan.Readers = []ReaderPlan{rp}
	}
	if rf.Chance(1, 10) {
		sc.Plan.Writers = []WriterPlan{{Stream: "out", FailAt: int64(rf.Intn(200)), Errno: Pick(rf, []string{"ENOSPC", "EIO", "EAGAIN", "EINTR", "EPIPE", "EBADF", "EFBIG"}), KillAt: -1}}
	}
	return sc
}

var (
	goroutineHdr     = regexp.MustCompile(`(?m)^goroutine \d+ [^\n]*\[[^\]]*\]:$`)
	mainGoroutineHdr = regexp.MustCompile(`(?m)^goroutine 1 [^\n]*\[[^\]]*\]:$`)
	digitsRe         = regexp.MustCompile(`\d+`)
	hexRe            = regexp.MustCompile(`0x[0-9a-f]+`)
)

// PanicSite extracts (message class, first yq frame) from a goroutine dump.
func PanicSite(stderr string) (class, site string) {
	class = "unknown"
	for _, line := range strings.Split(stderr, "\n") {
		if strings.HasPrefix(line, "panic: ") || strings.HasPrefix(line, "fatal error: ") {
			msg := strings.TrimPrefix(strings.TrimPrefix(line, "panic: "), "fatal error: ")
			switch {
			case strings.Contains(msg, "index out of range"):
				class = "index out of range"
			case strings.Contains(msg, "slice bounds out of range"):
				class = "slice bounds out of range"
			case strings.Contains(msg, "nil pointer dereference"):
				class = "nil pointer dereference"
			case strings.Contains(msg, "interface conversion"):
				class = "interface conversion"
			case strings.Contains(msg, "out of memory"), strings.Contains(msg, "cannot allocate"):
				class = "out of memory"
			case strings.Contains(msg, "stack overflow"), strings.Contains(msg, "stack exceeds"):
				class = "stack overflow"
			case strings.Contains(msg, "all goroutines are asleep"):
				class = "deadlock"
			default:
				m := hexRe.ReplaceAllString(msg, "H")
				m = digitsRe.ReplaceAllString(m, "N")
				m = strings.Join(strings.Fields(m), "_")
				if len(m) > 60 {
					m = m[:60]
				}
				class = "explicit:" + m
			}
			break
		}
	}
	site = "unknown"
	loc := goroutineHdr.FindStringIndex(stderr)
	if loc == nil {
		return
	}
	if strings.Contains(stderr, "fatal error: ") {
		// a fatal error is reported from whichever goroutine hit it (often a GC worker):
		// the evaluation itself always runs on goroutine 1
		if m := mainGoroutineHdr.FindStringIndex(stderr); m != nil {
			loc = m
		}
	}
	first := ""
	for _, line := range strings.Split(stderr[loc[1]:], "\n") {
		if line == "" {
			if first != "" {
				break
			}
			continue
		}
		if strings.HasPrefix(line, "\t") || strings.HasPrefix(line, "goroutine ") || strings.HasPrefix(line, "created by ") || strings.HasPrefix(line, "runtime: ") || strings.HasPrefix(line, "fatal error: ") {
			continue
		}
		fn := line
		if i := strings.LastIndex(fn, "("); i > 0 {
			fn = fn[:i]
		}
		if strings.HasPrefix(fn, "panic") || strings.HasPrefix(fn, "runtime.") || strings.HasPrefix(fn, "runtime/") {
			continue
		}
		if first == "" {
			first = fn
		}
		if (class == "out of memory" || class == "stack overflow") && (strings.Contains(fn, "(*CandidateNode)") || strings.Contains(fn, "yqlib.create")) {
			// where the allocation happened to fail is arbitrary: name the operator-level frame instead
			continue
		}
		if strings.Contains(fn, "mikefarah/yq/v4/") && !strings.Contains(fn, "verifhook") {
			short := fn[strings.Index(fn, "mikefarah/yq/v4/")+len("mikefarah/yq/v4/"):]
			return class, strings.TrimSuffix(short, ".func1")
		}
	}
	if first != "" {
		site = first
	}
	return
}

var entryFrameRe = regexp.MustCompile(`yqlib\.(\w+Operator|\(\*\w+\)\.(Encode|Decode|PrintResults))$`)

// RecursionEntry names, for a runaway recursion, the operator / encoder / decoder
// through which the evaluation entered it: the frame of that kind closest to
// main (the frames near the top of an overflowing stack are an arbitrary point
// of the cycle, the entry is stable).
func RecursionEntry(stderr string) string {
	loc := goroutineHdr.FindStringIndex(stderr)
	if loc == nil {
		return "unknown"
	}
	if m := mainGoroutineHdr.FindStringIndex(stderr); m != nil {
		loc = m
	}
	entry := "unknown"
	fallback := ""
	seenEntry := false
	for _, line := range strings.Split(stderr[loc[1]:], "\n") {
		if strings.HasPrefix(line, "goroutine ") {
			break
		}
		if line == "" || strings.HasPrefix(line, "\t") {
			continue
		}
		fn := line
		if i := strings.LastIndex(fn, "("); i > 0 {
			fn = fn[:i]
		}
		if entryFrameRe.MatchString(fn) {
			e := fn[strings.Index(fn, "yqlib."):]
			structural := strings.HasSuffix(e, "PrintResults") || strings.HasSuffix(e, "pipeOperator") || strings.HasSuffix(e, "unionOperator") || strings.HasSuffix(e, "blockOperator")
			if structural {
				if fallback == "" {
					fallback = e
				}
				continue
			}
			if !seenEntry {
				// frames are listed from the top of the stack: keep overwriting so that the one closest to main wins
			}
			seenEntry = true
			entry = e
		}
	}
	if !seenEntry && fallback != "" {
		entry = fallback
	}
	return strings.TrimPrefix(entry, "yqlib.")
}

func (C11) Judge(c *Ctx, sc *Scenario) []Violation {
	out := c.Exec(sc)
	format := sc.MetaString("format")
	var vs []Violation
	special := sc.MetaString("special")
	add := func(oracle, detail, msg string) {
		sig := fmt.Sprintf("%s %s", oracle, detail)
		if special != "" && (strings.Contains(detail, "hang=") || strings.Contains(detail, "stack overflow") || strings.Contains(detail, "out of memory")) {
			// resource exhaustion on an adversarial legal input: the signature names the input class
			sig += " input=" + special
		}
		class := sig
		exhaustion := strings.Contains(detail, "hang=watchdog") || strings.Contains(detail, "out of memory")
		if exhaustion && special == "" {
			// a run that eats time and memory without bound ends at whichever limit it meets first (the watchdog
			// or the address-space guard), and which one that is depends on the load of the machine: one class
			class = "resource exhaustion in=" + format
		}
		vs = append(vs, Violation{Prop: "C11", Oracle: oracle, Sig: sig, Class: class, Probabilistic: exhaustion && special == "", Msg: msg + " | in=" + format + " argv=" + strings.Join(sc.Argv, " ")})
	}
	faulted := false
	if ds, ok := sc.Meta["damage"].([]damage); ok && len(ds) > 0 {
		faulted = true
	} else if ds, ok := sc.Meta["damage"].([]any); ok && len(ds) > 0 {
		faulted = true
	}
	if _, ok := sc.Meta["expr_damage"]; ok {
		faulted = true
	}
	for _, e := range out.Events {
		if strings.HasPrefix(e.Decision, "error:") {
			faulted = true
		}
	}
	if !c.Quiet {
		stderrClass := "none"
		if len(out.Stderr) > 0 {
			stderrClass = firstWords(string(out.Stderr), 4)
		}
		c.Stats.Distinct(out.TraceSig()+strconv.Itoa(out.Exit)+stderrClass, faulted || len(sc.Plan.Readers) > 0)
		c.Count("format." + format)
		if faulted {
			c.Count("config.faulted")
		} else {
			c.Count("config.fault_free")
		}
		switch out.Exit {
		case 0:
			c.Count("outcome.result")
		case 1:
			c.Count("outcome.error")
		}
		if v := sc.MetaString("special"); v != "" {
			c.Count("probe.adversarial_legal_input." + v)
		}
		if v := sc.MetaString("input"); v != "" {
			c.Count("probe.input_class." + v)
		}
		if sc.NoHooks {
			c.Count("probe.split_under_descriptor_exhaustion")
		}
		if out.Exit == 0 && len(out.Stdout) > 1<<16 {
			c.Count("probe.output_over_64KiB")
		}
		for _, a := range sc.Argv {
			if strings.HasPrefix(a, "-") && !strings.HasPrefix(a, "--expression") && !strings.HasPrefix(a, "--from-file") {
				c.Count("flag." + strings.SplitN(a, "=", 2)[0])
			}
		}
		if ds, ok := sc.Meta["damage"].([]damage); ok {
			for _, d := range ds {
				c.Count("fired.stored." + d.Kind)
			}
		}
		if ds, ok := sc.Meta["expr_damage"].([]damage); ok {
			for _, d := range ds {
				c.Count("fired.stored_expression." + d.Kind)
			}
		}
	}
	if out.TimedOut {
		// backstop: only counts if an isolated re-run with a tripled limit also fails to end;
		// if that one ends, it is the run that is judged (the first was slowed down by load)
		w2 := *c.W
		w2.Watchdog = 60e9
		if sc.WatchdogS > 0 {
			w2.Watchdog = time.Duration(3*sc.WatchdogS) * time.Second
		}
		o2 := w2.Run(sc, RunOpts{Slot: c.Slot})
		if o2.TimedOut && isEvalAll(sc.Argv) && sc.MetaString("special") == "" {
			// eval-all multiplies results with the number of documents (crossproduct.go); the input here is
			// arbitrary text, so the documents cannot be counted off: the same command document by document is the
			// comparison. A hang that eval mode shares is reported from there.
			seq := sc.Clone()
			seq.Argv = evalModeOf(sc.Argv)
			if o3 := w2.Run(seq, RunOpts{Slot: c.Slot}); !o3.TimedOut {
				if !c.Quiet {
					c.Count("probe.eval_all_growth_not_reported_as_hang")
				}
				return vs
			}
		}
		if o2.TimedOut {
			add("O11.2", "hang=watchdog in="+format, fmt.Sprintf("yq did not terminate within %v (isolated re-run)", w2.Watchdog))
			return vs
		}
		out = o2
	}
	switch {
	case out.Exit == ExitBudget:
		add("O11.2", "hang=step-budget in="+format, "yq exceeded the step budget (hook-counted operator dispatches and reads)")
		return vs
	case out.Exit == ExitPoll:
		add("O11.2", "hang=reader-polled-after-end in="+format, "a reader was polled 10000 times after it had returned EOF/error")
		return vs
	}
	if crashed, how := out.Crashed(); crashed {
		class, site := PanicSite(string(out.Stderr))
		if class == "stack overflow" {
			site = "entry:" + RecursionEntry(string(out.Stderr))
		}
		add("O11.1", fmt.Sprintf("%s=%s at=%s", how, class, site), "yq crashed: "+firstLines(out.Stderr, 12))
		return vs
	}
	if out.Signal != 0 {
		add("O11.1", fmt.Sprintf("signal=%d", out.Signal), "yq was ended by a signal the simulator did not send")
		return vs
	}
	if out.Exit != 0 && out.Exit != 1 {
		add("O11.1", fmt.Sprintf("exit=%d", out.Exit), "unexpected exit status: "+firstLines(out.Stderr, 4))
	}
	if out.Exit == 1 && len(strings.TrimSpace(string(out.Stderr))) == 0 {
		add("O11.3", "silent-failure in="+format, "exit 1 without any message on stderr")
	}
	return vs
}

func firstWords(s string, n int) string {
	f := strings.Fields(s)
	if len(f) > n {
		f = f[:n]
	}
	return digitsRe.ReplaceAllString(strings.Join(f, " "), "N")
}
