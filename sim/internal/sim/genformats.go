package sim

import (
	"encoding/base64"
	"fmt"
	"net/url"
	"strconv"
	"strings"
)

// Valid single documents in each input format yq supports. Each carries an
// attributable id. They are deliberately small; C11 damages them.

func simpleWord(r *Rand) string { return Pick(r, wordPool) }

func GenProps(r *Rand, id string) string {
	var b strings.Builder
	if r.Chance(1, 4) {
		b.WriteString("# a comment\n")
	}
	fmt.Fprintf(&b, "id = %s\n", id)
	keys := []string{"a", "b", "c.x", "c.y", "d.0", "d.1", "e.0.k", "e.0.v", "long.key.path", "sp ace", ".", "..", "x..y", ".lead", "trail.", "d.7", "[0]", "arr[1]", "k.[2].z"}
	for _, k := range keys {
		if r.Chance(1, 2) {
			continue
		}
		sep := Pick(r, []string{" = ", "=", ": ", " "})
		if k == "sp ace" {
			k = "sp\\ ace"
		}
		if r.Chance(1, 5) {
			b.WriteString("# comment for " + k + "\n")
		}
		var v string
		switch r.Intn(4) {
		case 0:
			v = strconv.Itoa(r.Range(0, 99))
		case 1:
			v = simpleWord(r)
		case 2:
			v = "two words\\\n   continued"
		default:
			v = Pick(r, []string{"", "true", "é", "a\\tb", "\\u00e9"})
		}
		fmt.Fprintf(&b, "%s%s%s\n", k, sep, v)
	}
	if r.Chance(1, 5) {
		b.WriteString("! bang comment\n")
	}
	return b.String()
}

func csvField(r *Rand, sep string) string {
	switch r.Intn(7) {
	case 6:
		// cells that look like the beginning of YAML
		return Pick(r, []string{"[", "{", "*x", "&a", "!t", "- x", "a: b", "|", "[1", "{a: 1", "%", "@", "`"})
	case 0:
		return strconv.Itoa(r.Range(0, 99))
	case 1:
		return simpleWord(r)
	case 2:
		return "\"quoted " + sep + " field\""
	case 3:
		return "\"with \"\"quotes\"\"\""
	case 4:
		return ""
	default:
		return Pick(r, []string{"true", "1.5", "é", "\"multi\nline\""})
	}
}

func GenCSV(r *Rand, id string, sep string) string {
	cols := []string{"id", "a", "b"}
	for i, n := 0, r.Range(0, 3); i < n; i++ {
		cols = append(cols, Pick(r, []string{"c", "d", "e", "name", "val"})+strconv.Itoa(i))
	}
	var b strings.Builder
	b.WriteString(strings.Join(cols, sep) + "\n")
	rows := r.Range(1, 3)
	for k := 0; k < rows; k++ {
		fs := make([]string, len(cols))
		for i := range fs {
			fs[i] = csvField(r, sep)
		}
		fs[0] = id
		if k > 0 {
			fs[0] = id + "r" + strconv.Itoa(k)
		}
		b.WriteString(strings.Join(fs, sep) + "\n")
	}
	return b.String()
}

func GenXML(r *Rand, id string) string {
	var b strings.Builder
	if r.Chance(1, 2) {
		b.WriteString("<?xml version=\"1.0\" encoding=\"UTF-8\"?>\n")
	}
	if r.Chance(1, 6) {
		b.WriteString("<!DOCTYPE root SYSTEM \"x.dtd\">\n")
	}
	if r.Chance(1, 4) {
		b.WriteString("<!-- head comment -->\n")
	}
	attr := ""
	if r.Chance(1, 2) {
		attr = fmt.Sprintf(" ver=\"%d\" name=\"%s\"", r.Range(1, 9), simpleWord(r))
	}
	fmt.Fprintf(&b, "<root%s>\n  <id>%s</id>\n", attr, id)
	if r.Chance(2, 3) {
		fmt.Fprintf(&b, "  <a>%d</a>\n", r.Range(0, 9))
	}
	if r.Chance(1, 2) {
		fmt.Fprintf(&b, "  <b>%s</b>\n", Pick(r, []string{"text", "a &amp; b", "&lt;t&gt;", "é", "<![CDATA[raw <x>]]>", ""}))
	}
	if r.Chance(1, 2) {
		fmt.Fprintf(&b, "  <c x=\"%d\"><y>%s</y><!-- inner --></c>\n", r.Range(0, 9), simpleWord(r))
	}
	for i, n := 0, r.Range(0, 3); i < n; i++ {
		fmt.Fprintf(&b, "  <d>%d</d>\n", r.Range(0, 20))
	}
	if r.Chance(1, 4) {
		b.WriteString("  <e k=\"p\"/>\n  <ns:f xmlns:ns=\"urn:x\">1</ns:f>\n")
	}
	if r.Chance(1, 5) {
		b.WriteString("  mixed <i>content</i> here\n")
	}
	b.WriteString("</root>\n")
	if r.Chance(1, 6) {
		b.WriteString("<!-- foot -->\n")
	}
	return b.String()
}

func GenTOML(r *Rand, id string) string {
	var b strings.Builder
	if r.Chance(1, 4) {
		b.WriteString("# toml comment\n")
	}
	fmt.Fprintf(&b, "id = \"%s\"\n", id)
	if r.Chance(2, 3) {
		fmt.Fprintf(&b, "a = %d\n", r.Range(0, 99))
	}
	if r.Chance(1, 2) {
		fmt.Fprintf(&b, "b = %s\n", Pick(r, []string{"\"text\"", "'literal'", "\"esc \\\" q\"", "\"\"\"multi\nline\"\"\"", "\"é\""}))
	}
	if r.Chance(1, 2) {
		fmt.Fprintf(&b, "f = %s\n", Pick(r, []string{"true", "false", "1.5", "-0.25", "1e3", "inf", "nan", "0x1f", "1_000"}))
	}
	if r.Chance(1, 3) {
		fmt.Fprintf(&b, "when = %s\n", Pick(r, []string{"1979-05-27T07:32:00Z", "1979-05-27", "07:32:00", "1979-05-27T00:32:00-07:00"}))
	}
	if r.Chance(1, 2) {
		fmt.Fprintf(&b, "d = [%d, %d, %d]\n", r.Range(0, 9), r.Range(0, 9), r.Range(0, 9))
	}
	if r.Chance(1, 3) {
		b.WriteString("inl = { x = 1, y = \"s\" }\n")
	}
	if r.Chance(1, 2) {
		fmt.Fprintf(&b, "\n[c]\nx = %d\ny = \"%s\"\n", r.Range(0, 9), simpleWord(r))
		if r.Chance(1, 2) {
			b.WriteString("\n[c.deep]\nz = true\n")
		}
	}
	if r.Chance(1, 3) {
		fmt.Fprintf(&b, "\n[[e]]\nk = \"%s\"\nv = %d\n\n[[e]]\nk = \"%s\"\nv = %d\n", simpleWord(r), r.Range(0, 9), simpleWord(r), r.Range(0, 9))
	}
	return b.String()
}

func luaValue(r *Rand, depth int) string {
	switch r.Intn(7) {
	case 0:
		return strconv.Itoa(r.Range(-5, 99))
	case 1:
		return "\"" + simpleWord(r) + "\""
	case 2:
		return Pick(r, []string{"true", "false", "nil"})
	case 3:
		return Pick(r, []string{"1.5", "-0.25", "1e3", "0x10"})
	case 4:
		return "'single'"
	default:
		if depth <= 0 {
			return "{}"
		}
		if r.Chance(1, 2) {
			n := r.Range(0, 3)
			parts := make([]string, n)
			for i := range parts {
				parts[i] = luaValue(r, depth-1)
			}
			return "{" + strings.Join(parts, ", ") + "}"
		}
		n := r.Range(0, 3)
		parts := make([]string, n)
		for i := range parts {
			k := Pick(r, []string{"x", "y", "z", "k1"}) + strconv.Itoa(i)
			if r.Chance(1, 2) {
				parts[i] = k + " = " + luaValue(r, depth-1)
			} else {
				parts[i] = "[\"" + k + "\"] = " + luaValue(r, depth-1)
			}
		}
		return "{" + strings.Join(parts, "; ") + "}"
	}
}

func GenLua(r *Rand, id string) string {
	if r.Chance(1, 3) {
		// data defined as globals (what --lua-globals writes); some values lean on globals that may not exist
		var g strings.Builder
		fmt.Fprintf(&g, "id = \"%s\";\n", id)
		for _, k := range []string{"a", "replicas", "name", "flag"} {
			switch r.Intn(4) {
			case 0:
				fmt.Fprintf(&g, "%s = %d;\n", k, r.Range(0, 99))
			case 1:
				fmt.Fprintf(&g, "%s = %s or %d;\n", k, Pick(r, []string{"a", "replicas", "name", "flag", "other"}), r.Range(0, 9))
			case 2:
				fmt.Fprintf(&g, "%s = \"%s\";\n", k, simpleWord(r))
			}
		}
		return g.String()
	}
	var b strings.Builder
	if r.Chance(1, 4) {
		b.WriteString("-- lua comment\n")
	}
	b.WriteString("return {\n")
	fmt.Fprintf(&b, "\t[\"id\"] = \"%s\";\n", id)
	if r.Chance(2, 3) {
		fmt.Fprintf(&b, "\ta = %d;\n", r.Range(0, 99))
	}
	for i, n := 0, r.Range(0, 4); i < n; i++ {
		fmt.Fprintf(&b, "\t%s = %s;\n", Pick(r, []string{"b", "c", "d", "e", "g"})+strconv.Itoa(i), luaValue(r, 2))
	}
	b.WriteString("};\n")
	return b.String()
}

func GenJSONDoc(r *Rand, id string, pretty bool) string {
	g := &DocGen{R: r, Plain: true}
	v := g.Doc(id)
	s := v.JSON()
	if pretty {
		// cheap pretty printer: newline after commas at depth 1
		s = strings.Replace(s, "{", "{\n ", 1)
		if i := strings.LastIndex(s, "}"); i >= 0 {
			s = s[:i] + "\n}"
		}
	}
	return s + "\n"
}

func GenBase64(r *Rand, id string) string {
	return base64.StdEncoding.EncodeToString([]byte("id: " + id + " " + Pick(r, strPool)))
}

func GenURI(r *Rand, id string) string {
	return url.QueryEscape("id=" + id + "&v=" + Pick(r, strPool))
}

// InputFormats lists every -p value with a sample generator and the file
// extension that auto-detects it ("" = none).
type FormatInfo struct {
	Name string
	Ext  string
	Gen  func(r *Rand, id string) string
	// IDPath is the expression that yields the id of a generated document
	IDPath string
}

var InputFormats = []FormatInfo{
	{"yaml", "yaml", func(r *Rand, id string) string { return (&DocGen{R: r}).Doc(id).YAML() }, ".id"},
	{"json", "json", func(r *Rand, id string) string { return GenJSONDoc(r, id, r.Chance(1, 3)) }, ".id"},
	{"props", "properties", GenProps, ".id"},
	{"csv", "csv", func(r *Rand, id string) string { return GenCSV(r, id, ",") }, ".[0].id"},
	{"tsv", "tsv", func(r *Rand, id string) string { return GenCSV(r, id, "\t") }, ".[0].id"},
	{"xml", "xml", GenXML, ".root.id"},
	{"toml", "toml", GenTOML, ".id"},
	{"lua", "lua", GenLua, ".id"},
	{"base64", "", GenBase64, "."},
	{"uri", "", GenURI, "."},
}

func FormatByName(n string) *FormatInfo {
	for i := range InputFormats {
		if InputFormats[i].Name == n {
			return &InputFormats[i]
		}
	}
	return nil
}

var OutputFormats = []string{"yaml", "json", "props", "csv", "tsv", "xml", "base64", "uri", "toml", "shell", "lua"}
