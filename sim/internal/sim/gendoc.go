package sim

import (
	"fmt"
	"strconv"
	"strings"
)

// Value is a JSON-model tree with ordered, unique map keys.
type Value struct {
	Kind string // "map" "seq" "str" "int" "float" "bool" "null"
	Keys []string
	Kids []*Value
	S    string // scalar text: str content, or canonical int/float/bool text
	// presentation hints (YAML only)
	Flow    bool
	Comment string // line comment (scalars) / head comment (collections)
	Quote   byte   // 0 auto, '"' or '\''
	Anchor  string
	Alias   string // non-empty: render as *alias
}

func vStr(s string) *Value   { return &Value{Kind: "str", S: s} }
func vInt(i int) *Value      { return &Value{Kind: "int", S: strconv.Itoa(i)} }
func vBool(b bool) *Value    { return &Value{Kind: "bool", S: strconv.FormatBool(b)} }
func vNull() *Value          { return &Value{Kind: "null", S: "null"} }
func vFloat(s string) *Value { return &Value{Kind: "float", S: s} }
func vMap() *Value           { return &Value{Kind: "map"} }
func vSeq(kids ...*Value) *Value {
	return &Value{Kind: "seq", Kids: kids}
}
func (v *Value) Set(k string, c *Value) *Value {
	for i, kk := range v.Keys {
		if kk == k {
			v.Kids[i] = c
			return v
		}
	}
	v.Keys = append(v.Keys, k)
	v.Kids = append(v.Kids, c)
	return v
}
func (v *Value) Get(k string) *Value {
	for i, kk := range v.Keys {
		if kk == k {
			return v.Kids[i]
		}
	}
	return nil
}

func (v *Value) Count() int {
	n := 1
	for _, k := range v.Kids {
		n += k.Count()
	}
	return n
}

var strPool = []string{
	"alpha", "beta", "gamma", "delta", "x y", "true", "123", "null", "~", "é", "日本", "a:b", "#no", "- dash", "",
	"two words", " lead", "trail ", "q\"uote", "it's", "0x1f", "1e3", "yes", "no", "a,b", "k=v", "<t>", "&amp", "*star",
	"line1\nline2", "tab\there", "{brace}", "[brk]", "50%", "back\\slash", "🙂", "Ünï", "-", "?", ":", "@at", "`bt`", "!bang", "|pipe", ">gt",
}

var wordPool = []string{"alpha", "beta", "gamma", "delta", "eps", "zeta", "eta", "theta", "iota", "kappa", "p", "q", "r"}

var extraKeys = []string{"h", "i", "j", "k", "m", "n", "name", "spec", "items", "meta", "val", "on", "key with space", "0", "null", "a.b", "", "名前", "ключ", "é", "-", "_", "1a", "a-b", "$x", "~"}

func isPlainSafe(s string) bool {
	if s == "" {
		return false
	}
	switch strings.ToLower(s) {
	case "true", "false", "null", "~", "yes", "no", "on", "off", "y", "n":
		return false
	}
	if _, err := strconv.ParseFloat(s, 64); err == nil {
		return false
	}
	if _, err := strconv.ParseInt(s, 0, 64); err == nil {
		return false
	}
	for i, c := range s {
		if !(c >= 'a' && c <= 'z' || c >= 'A' && c <= 'Z' || c >= '0' && c <= '9' || c == '_' || (c == '-' && i > 0) || (c == '.' && i > 0) || c > 0x7f) {
			return false
		}
	}
	return true
}

func yamlScalar(v *Value) string {
	if v.Alias != "" {
		return "*" + v.Alias
	}
	pre := ""
	if v.Anchor != "" {
		pre = "&" + v.Anchor + " "
	}
	switch v.Kind {
	case "str":
		if v.Quote == '\'' && !strings.ContainsAny(v.S, "\n\t\\") && isPrintable(v.S) {
			return pre + "'" + strings.ReplaceAll(v.S, "'", "''") + "'"
		}
		if v.Quote == 0 && isPlainSafe(v.S) {
			return pre + v.S
		}
		return pre + yamlDQ(v.S)
	default:
		return pre + v.S
	}
}

func isPrintable(s string) bool {
	for _, c := range s {
		if c < 0x20 || c == 0x7f {
			return false
		}
	}
	return true
}

func yamlDQ(s string) string {
	var b strings.Builder
	b.WriteByte('"')
	for _, c := range s {
		switch {
		case c == '"':
			b.WriteString(`\"`)
		case c == '\\':
			b.WriteString(`\\`)
		case c == '\n':
			b.WriteString(`\n`)
		case c == '\t':
			b.WriteString(`\t`)
		case c == '\r':
			b.WriteString(`\r`)
		case c < 0x20 || c == 0x7f:
			fmt.Fprintf(&b, `\x%02x`, c)
		default:
			b.WriteRune(c)
		}
	}
	b.WriteByte('"')
	return b.String()
}

func yamlKey(k string) string {
	if isPlainSafe(k) {
		return k
	}
	return yamlDQ(k)
}

func yamlFlow(v *Value) string {
	switch v.Kind {
	case "map":
		parts := make([]string, len(v.Keys))
		for i, k := range v.Keys {
			parts[i] = yamlKey(k) + ": " + yamlFlow(v.Kids[i])
		}
		return "{" + strings.Join(parts, ", ") + "}"
	case "seq":
		parts := make([]string, len(v.Kids))
		for i, k := range v.Kids {
			parts[i] = yamlFlow(k)
		}
		return "[" + strings.Join(parts, ", ") + "]"
	}
	s := yamlScalar(v)
	if v.Kind == "str" && v.Quote == 0 && isPlainSafe(v.S) {
		return s
	}
	return s
}

// YAML renders v as a block-style YAML document body (no separator).
func (v *Value) YAML() string {
	var b strings.Builder
	yamlBlock(&b, v, 0, false)
	return b.String()
}

func yamlBlock(b *strings.Builder, v *Value, ind int, inSeq bool) {
	pad := strings.Repeat(" ", ind)
	switch {
	case v.Alias != "" || (v.Kind != "map" && v.Kind != "seq"):
		b.WriteString(yamlScalar(v))
		if v.Comment != "" {
			b.WriteString(" # " + v.Comment)
		}
		b.WriteString("\n")
	case v.Flow || len(v.Kids) == 0:
		if v.Anchor != "" {
			b.WriteString("&" + v.Anchor + " ")
		}
		b.WriteString(yamlFlow(v))
		b.WriteString("\n")
	case v.Kind == "map":
		for i, k := range v.Keys {
			c := v.Kids[i]
			if i > 0 || !inSeq {
				b.WriteString(pad)
			}
			if c.Comment != "" && (c.Kind == "map" || c.Kind == "seq") && !(i == 0 && inSeq) {
				b.WriteString("# " + c.Comment + "\n" + pad)
			}
			b.WriteString(yamlKey(k) + ":")
			if c.Alias == "" && (c.Kind == "map" || c.Kind == "seq") && !c.Flow && len(c.Kids) > 0 {
				if c.Anchor != "" {
					b.WriteString(" &" + c.Anchor)
				}
				b.WriteString("\n")
				yamlBlockNested(b, c, ind+2)
			} else {
				b.WriteString(" ")
				yamlBlock(b, c, ind+2, false)
			}
		}
	case v.Kind == "seq":
		for _, c := range v.Kids {
			b.WriteString(pad + "- ")
			if c.Alias == "" && (c.Kind == "map" || c.Kind == "seq") && !c.Flow && len(c.Kids) > 0 {
				if c.Kind == "seq" {
					// nested block sequence inside a sequence item
					b.WriteString("\n")
					yamlBlockNested(b, c, ind+2)
				} else {
					yamlBlock(b, c, ind+2, true)
				}
			} else {
				yamlBlock(b, c, ind+2, false)
			}
		}
	}
}

func yamlBlockNested(b *strings.Builder, c *Value, ind int) {
	save := c.Anchor
	c.Anchor = ""
	yamlBlock(b, c, ind, false)
	c.Anchor = save
}

// JSON renders v as compact JSON (aliases are expanded by the caller: values
// with Alias set must not be passed here).
func (v *Value) JSON() string {
	switch v.Kind {
	case "map":
		parts := make([]string, len(v.Keys))
		for i, k := range v.Keys {
			parts[i] = jsonStr(k) + ":" + v.Kids[i].JSON()
		}
		return "{" + strings.Join(parts, ",") + "}"
	case "seq":
		parts := make([]string, len(v.Kids))
		for i, k := range v.Kids {
			parts[i] = k.JSON()
		}
		return "[" + strings.Join(parts, ",") + "]"
	case "str":
		return jsonStr(v.S)
	}
	return v.S
}

func jsonStr(s string) string {
	var b strings.Builder
	b.WriteByte('"')
	for _, c := range s {
		switch {
		case c == '"':
			b.WriteString(`\"`)
		case c == '\\':
			b.WriteString(`\\`)
		case c == '\n':
			b.WriteString(`\n`)
		case c == '\t':
			b.WriteString(`\t`)
		case c == '\r':
			b.WriteString(`\r`)
		case c < 0x20:
			fmt.Fprintf(&b, `\u%04x`, c)
		default:
			b.WriteRune(c)
		}
	}
	b.WriteByte('"')
	return b.String()
}

// DocGen generates documents following a loose schema so that generated
// expressions are meaningful:
//
//	id: unique string     a: int      b: string   c: {x:int, y:str, z:bool}
//	d: [int...]           e: [{k:str, v:int}...]  f: bool   g: null   extras: random
type DocGen struct {
	R        *Rand
	Plain    bool // no comments/flow/anchors/quoting variety
	Full     bool // every schema key present, d and e non-empty, no extra keys
	MaxNodes int
}

func (g *DocGen) scalar() *Value {
	r := g.R
	switch r.Weighted([]int{5, 4, 1, 1, 1}) {
	case 0:
		v := vStr(Pick(r, strPool))
		if !g.Plain && r.Chance(1, 5) {
			v.Quote = Pick(r, []byte{'"', '\''})
		}
		return v
	case 1:
		return vInt(r.Range(-5, 99))
	case 2:
		return vBool(r.Chance(1, 2))
	case 3:
		return vNull()
	default:
		return vFloat(Pick(r, []string{"1.5", "-0.25", "3.0", "1e3", "2.5e-3"}))
	}
}

func (g *DocGen) random(depth int) *Value {
	r := g.R
	if depth <= 0 || r.Chance(1, 2) {
		return g.scalar()
	}
	if r.Chance(1, 2) {
		m := vMap()
		n := r.Range(0, 3)
		for i := 0; i < n; i++ {
			m.Set(Pick(r, extraKeys), g.random(depth-1))
		}
		if !g.Plain {
			m.Flow = r.Chance(1, 4)
		}
		return m
	}
	s := vSeq()
	n := r.Range(0, 3)
	for i := 0; i < n; i++ {
		s.Kids = append(s.Kids, g.random(depth-1))
	}
	if !g.Plain {
		s.Flow = r.Chance(1, 4)
	}
	return s
}

// Doc builds one schema document carrying the unique id.
func (g *DocGen) Doc(id string) *Value {
	r := g.R
	m := vMap()
	order := []string{"id", "a", "b", "c", "d", "e", "f", "g"}
	if r.Chance(1, 3) {
		// key order varies
		for i := len(order) - 1; i > 0; i-- {
			j := r.Intn(i + 1)
			order[i], order[j] = order[j], order[i]
		}
	}
	for _, k := range order {
		if k != "id" && !g.Full && r.Chance(1, 4) {
			continue
		}
		switch k {
		case "id":
			m.Set("id", vStr(id))
		case "a":
			m.Set("a", vInt(r.Range(0, 9)))
		case "b":
			m.Set("b", vStr(Pick(r, strPool)))
		case "c":
			c := vMap()
			if g.Full || r.Chance(3, 4) {
				c.Set("x", vInt(r.Range(0, 9)))
			}
			if g.Full || r.Chance(3, 4) {
				c.Set("y", vStr(Pick(r, wordPool)))
			}
			if g.Full || r.Chance(1, 2) {
				c.Set("z", vBool(r.Chance(1, 2)))
			}
			if !g.Plain {
				c.Flow = r.Chance(1, 5)
			}
			m.Set("c", c)
		case "d":
			d := vSeq()
			lo := 0
			if g.Full {
				lo = 2
			}
			for i, n := 0, r.Range(lo, 4); i < n; i++ {
				d.Kids = append(d.Kids, vInt(r.Range(0, 20)))
			}
			if !g.Plain {
				d.Flow = r.Chance(1, 3)
			}
			m.Set("d", d)
		case "e":
			e := vSeq()
			lo := 0
			if g.Full {
				lo = 2
			}
			for i, n := 0, r.Range(lo, 3); i < n; i++ {
				it := vMap()
				it.Set("k", vStr(Pick(r, wordPool)))
				it.Set("v", vInt(r.Range(0, 9)))
				if i > 0 && !g.Full && r.Chance(1, 4) {
					// ragged rows: keys the first row does not have
					for _, xk := range []string{"w", "u", "t"} {
						if r.Chance(2, 3) {
							it.Set(xk, vInt(r.Range(0, 9)))
						}
					}
				}
				e.Kids = append(e.Kids, it)
			}
			m.Set("e", e)
		case "f":
			m.Set("f", vBool(r.Chance(1, 2)))
		case "g":
			m.Set("g", vNull())
		}
	}
	if !g.Full && r.Chance(1, 6) {
		// nulls as elements: a decoder makes nodes for them like for any other element
		m.Set("nl", vSeq(vInt(r.Range(0, 9)), vNull(), vStr(Pick(r, wordPool)), vNull()))
	}
	for i, n := 0, r.Range(0, 2); i < n && !g.Full; i++ {
		k := Pick(r, extraKeys)
		if m.Get(k) == nil {
			m.Set(k, g.random(2))
		}
	}
	if !g.Plain {
		for _, c := range m.Kids {
			if r.Chance(1, 8) {
				c.Comment = Pick(r, []string{"note", "keep me", "x: y", "todo # nested"})
			}
		}
		if r.Chance(1, 10) {
			if c := m.Get("c"); c != nil && len(c.Kids) > 0 {
				c.Anchor = "anc"
				m.Set("c2", &Value{Kind: "map", Alias: "anc"})
			}
		}
	}
	return m
}

// DocID builds the unique, attributable id of document j of file i.
func DocID(r *Rand, i, j int) string {
	const al = "abcdefghijklmnopqrstuvwxyz0123456789"
	b := make([]byte, 6)
	for k := range b {
		b[k] = al[r.Intn(len(al))]
	}
	return fmt.Sprintf("f%dd%d-%s", i, j, b)
}
