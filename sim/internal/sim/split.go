package sim

import (
	"bytes"
	"fmt"
	"sort"
	"strings"
)

// Split output (-s): every result goes to a file named by an expression.
// The scenario is shared by C10 (the files of a multi-document run are the
// files of the per-document runs) and C19 (exit 0 only if every result was
// written completely).

var splitExprs = []string{".", ".", ".a = 1", ".b |= .", "del(.c)", ".new = 1", "sort_keys(..)", ".d |= sort", ".e[0].k = \"z\"", "... comments=\"\""}

// GenSplitScenario builds `yq [ea] -s=.id [-o=json] EXPR files...` over YAML
// documents that all carry a distinct id.
func GenSplitScenario(r *Rand, prop string) *Scenario {
	sc := &Scenario{Kind: "proc", Meta: map[string]any{}}
	rs := r.Fork("split")
	opts := MultiOpts{MaxFiles: 3, MaxDocs: 3, AllowStdin: false, AllowEmpty: false, Format: "yaml", PlainOnly: true, Big: rs.Chance(1, 2)}
	sc.Files = GenMultiFiles(r.Fork("files"), opts)
	var argv []string
	if rs.Chance(1, 3) {
		argv = append(argv, "ea")
	}
	splitExp := "-s=.id"
	if prop == "C19" && rs.Chance(1, 4) {
		// a split expression that fails for a result: nothing may be written under another name, the run must fail
		splitExp = Pick(rs, []string{"-s=.id | upcase | error(\"no name\")", "-s=error(\"boom\")", "-s=.id - 1", "-s=load(\"missing.yaml\")", "-s=(.id | select(. == \"nope\")) // error(\"no name\")"})
		sc.Meta["split_must_fail"] = true
	}
	argv = append(argv, splitExp)
	if rs.Chance(1, 4) {
		argv = append(argv, "-o=json")
	}
	if rs.Chance(1, 6) {
		argv = append(argv, "-N")
	}
	expr := Pick(rs, splitExprs)
	argv = append(argv, expr)
	for _, f := range sc.Files {
		argv = append(argv, f.Name)
	}
	sc.Argv = argv
	sc.Meta["variant"] = "split"
	sc.Meta["expr"] = expr
	sc.Meta["expr_raw"] = expr
	sc.Meta["format"] = "yaml"
	sc.Meta["family"] = "split-output"
	sc.Meta["keep_flags"] = []any{splitExp}
	if splitExp == "-s=.id" && rs.Chance(1, 4) {
		// an earlier run left a longer file under the name of one of the outputs
		lay := LayoutOf(sc.Files, "yaml")
		if len(lay) > 0 {
			d := lay[rs.Intn(len(lay))]
			ext := ".yml"
			if containsArg(argv, "-o=json") {
				ext = ".json"
			}
			if d.ID != "" {
				sc.Files = append(sc.Files, File{Name: d.ID + ext, Data: Bytes(strings.Repeat("stale line left by an earlier run\n", rs.Range(40, 400))), Mode: 0644})
				sc.Meta["stale_output"] = d.ID + ext
			}
		}
	}
	sc.Meta["freeze_data"] = true
	rf := r.Fork("sched")
	if rf.Chance(1, 3) {
		sc.Plan.Readers = []ReaderPlan{{Stream: "input", Chunks: genChunks(rf), ErrAt: -1, EOFWithData: rf.Chance(1, 3)}}
	}
	return sc
}

func stripLeadingSep(b []byte) []byte {
	return bytes.TrimPrefix(b, []byte("---\n"))
}

// JudgeSplit compares the files written by the combined run with what the
// per-document runs (without -s) print. It returns (oracle detail, message)
// pairs; the caller attaches its own property and oracle ids.
func JudgeSplit(c *Ctx, sc *Scenario) (problems [][2]string, nontrivial bool) {
	out := c.Exec(sc)
	if out.TimedOut || out.Exit == ExitBudget || out.Exit == ExitPoll {
		return [][2]string{{"hang", "split run did not terminate"}}, false
	}
	if crashed, how := out.Crashed(); crashed {
		return [][2]string{{"crash=" + how, "split run crashed: " + firstLines(out.Stderr, 5)}}, false
	}
	ext := "yml"
	var flags []string
	expr := sc.MetaString("expr")
	var names []string
	seen := false
	for _, a := range sc.Argv {
		switch {
		case !seen && a == expr:
			seen = true
		case !seen:
			if a == "-o=json" {
				ext = "json"
			}
			if !strings.HasPrefix(a, "-s=") && a != "ea" {
				flags = append(flags, a)
			}
		default:
			names = append(names, a)
		}
	}
	if !seen || !containsPrefix(sc.Argv, "-s=") {
		return nil, false // the shrinker took the scenario apart
	}
	if sc.MetaBool("split_must_fail") {
		var ps [][2]string
		if out.Exit == 0 {
			var made []string
			for name := range out.Files {
				if sc.File(name) == nil {
					made = append(made, name)
				}
			}
			sort.Strings(made)
			ps = append(ps, [2]string{"exit=0 split-expression-fails", fmt.Sprintf("the split expression fails for every result, yet yq exited 0 (files written: %v)", made)})
		} else if len(bytes.TrimSpace(out.Stderr)) == 0 {
			ps = append(ps, [2]string{"silent split-expression-fails", fmt.Sprintf("exit %d but nothing on stderr", out.Exit)})
		}
		return ps, true
	}
	var files []File
	for _, n := range names {
		if f := sc.File(n); f != nil {
			files = append(files, *f)
		}
	}
	layout := LayoutOf(files, "yaml") // (a stale output file is not an argument, so it is not in names)
	if len(layout) == 0 {
		return nil, false
	}
	inputs := map[string]bool{}
	for _, f := range sc.Files {
		inputs[f.Name] = true
	}
	want := map[string][]byte{}
	for _, d := range layout {
		if d.ID == "" {
			return nil, false
		}
		ref := c.Ref(append(append([]string{}, flags...), expr, d.Name), []File{{Name: d.Name, Data: Bytes(SoloText(d.Piece, d.DocIndex)), Mode: 0644}}, nil)
		if ref.Exit != 0 || ref.TimedOut {
			return nil, false // the expression fails on a document alone: not this oracle's matter
		}
		want[d.ID+"."+ext] = ref.Stdout
	}
	nontrivial = len(layout) >= 2
	if out.Exit != 0 {
		problems = append(problems, [2]string{"exit=" + fmt.Sprint(out.Exit), fmt.Sprintf("every document alone is processed without error, the split run exits %d: %s", out.Exit, firstLines(out.Stderr, 2))})
		return
	}
	var ks []string
	for k := range want {
		ks = append(ks, k)
	}
	sort.Strings(ks)
	for _, k := range ks {
		got, ok := out.Files[k]
		switch {
		case !ok:
			problems = append(problems, [2]string{"file=missing", fmt.Sprintf("exit 0 but the split file %s was not written", k)})
		case !bytes.Equal(stripLeadingSep(got.Data), stripLeadingSep(want[k])):
			d := "content"
			if len(got.Data) == 0 {
				d = "empty"
			} else if bytes.HasSuffix(stripLeadingSep(want[k]), got.Data) || bytes.HasPrefix(stripLeadingSep(want[k]), stripLeadingSep(got.Data)) {
				d = "truncated"
			}
			problems = append(problems, [2]string{"file=" + d, fmt.Sprintf("exit 0 but the split file %s is not what the document alone gives: has %d bytes %q, expected %d bytes %q", k, len(got.Data), clip(got.Data, 120), len(want[k]), clip(want[k], 120))})
		}
		if len(problems) > 0 {
			return
		}
	}
	for name := range out.Files {
		if _, ok := want[name]; !ok && !inputs[name] {
			problems = append(problems, [2]string{"file=extra", "the split run wrote a file no document accounts for: " + name})
			return
		}
	}
	if len(bytes.TrimSpace(out.Stdout)) != 0 {
		problems = append(problems, [2]string{"stdout", fmt.Sprintf("split output also went to stdout: %q", clip(out.Stdout, 120))})
	}
	return
}
