package sim

import (
	"bytes"
	"fmt"
	"sort"
	"strconv"
	"strings"
)

// C12 — in-place edit is all-or-nothing.
type C12 struct{}

func (C12) ID() string    { return "C12" }
func (C12) Level() string { return "fault_enumeration" }

func (C12) Describe() CheckInfo {
	return CheckInfo{
		Rule: "Each evaluation is one seeded (expression, target file, flags, TMPDIR placement) scenario of `yq -i`: a fault-free traced pre-run yields the actual step sequence and stream sizes; the snapshot invariant O12.3 (target is OLD or NEW at every hook event, OLD never after NEW) then decides every step-boundary crash point of that scenario from one run, and 0-3 sampled faults (errno at a named step, write error/partial write/kill after k output bytes, failed close with lost tail, read error, real EXDEV, real SIGKILL at a step) are executed in fresh processes and judged by O12.1/O12.2/O12.4. A case is non-trivial when at least one fault fired or the cross-device fallback ran; distinct = distinct normalised trace signatures.",
		Assumptions: []string{
			"a killed process loses nothing already handed to the kernel (page cache survives): power loss is not modelled",
			"NEW is defined as the stdout of the same command without -i in a fault-free fresh process",
			"errors at hook points are synthesised errnos routed only into branches the real call's own error takes",
			"the driver runs as root, so permission faults are injected as errnos rather than arranged with file modes",
		},
		Real:    []string{"yq binary built from /repo working tree with -tags verif", "Go runtime", "kernel file systems (tmpfs for the target, root fs for the cross-device TMPDIR)", "rename(2) incl. real EXDEV", "SIGKILL", "close(2) error path (descriptor closed underneath yq)"},
		Stubbed: []string{"errno returned at a named step instead of performing the call", "failing/partial writer under the output stream", "short-read reader under input streams"},
	}
}

var c12Modes = []uint32{0600, 0640, 0644, 0664, 0755, 0444, 04755, 0666, 0400}

func c12Docs(r *Rand, n int, plain bool) []string {
	g := &DocGen{R: r.Fork("docs"), Plain: plain}
	var docs []string
	for j := 0; j < n; j++ {
		body := g.Doc(DocID(r, 0, j)).YAML()
		if r.Chance(1, 8) {
			// output that does not fit one buffer
			body += "pad: \"" + strings.Repeat("lorem ", r.Range(800, 3000)) + "\"\n"
		}
		if j > 0 {
			body = "---\n" + body
		} else if r.Chance(1, 5) {
			body = "---\n" + body
		} else if r.Chance(1, 6) {
			body = "# header comment\n" + body
		}
		docs = append(docs, body)
	}
	return docs
}

func (C12) Generate(c *Ctx, r *Rand, index int) *Scenario {
	sc := &Scenario{Kind: "proc", Meta: map[string]any{}}
	rs := r.Fork("shape")
	kind := rs.Weighted([]int{60, 8, 10, 10, 5, 7, 3})
	kinds := []string{"ok", "parse-error", "eval-error", "decode-error", "no-match-e", "encode-error", "refused"}
	sc.Meta["kind"] = kinds[kind]
	ndocs := rs.Range(1, 3)
	docs := c12Docs(r, ndocs, rs.Chance(1, 3))
	target := "t.yaml"
	if rs.Chance(1, 8) {
		// legal but unusual names: at the length limit of a directory entry, hidden, blanks, glob characters, non-ASCII
		target = Pick(rs, []string{strings.Repeat("n", 250) + ".yaml", strings.Repeat("\u00e9", 125) + ".yml", "a b.yaml", ".hidden.yaml", "x*?[1].yaml", "\u00fcn\u00ef c\u00f6d\u00e9.yaml", "t.yaml.bak.yaml", "~t.yaml"})
		sc.Meta["name_class"] = "unusual"
	}
	frontMatter := false
	jsonTarget := false
	if kind == 0 && sc.MetaString("name_class") == "" && rs.Chance(1, 14) {
		// a JSON file named as such, the input format given explicitly and the output format left to yq:
		// whatever yq decides, -i must decide the same as the run without -i
		target = Pick(rs, []string{"t.json", "t.JSON", "conf.json"})
		docs = []string{GenJSONDoc(r.Fork("json"), DocID(r, 0, 0), false)}
		jsonTarget = true
		sc.Meta["json_target"] = true
	} else if kind == 0 && rs.Chance(1, 6) {
		// front matter: yaml block, then arbitrary text
		frontMatter = true
		target = "post.md"
		g := &DocGen{R: r.Fork("fm"), Plain: true}
		body := g.Doc(DocID(r, 0, 0)).YAML()
		appendix := Pick(rs, []string{
			"---\n# Title\n\nSome *markdown* text\n", "---\nbody: not yaml: [\n\ttabs\n", "---\n", "---\nline without newline",
			"---\n---\n---\nmore\n", "---\r\nwindows\r\n", "--- trailing\ntext\n", "---\n" + strings.Repeat("lorem ipsum dolor\n", rs.Range(1, 300)),
		})
		docs = []string{"---\n" + body, appendix}
		if rs.Chance(1, 3) {
			docs = []string{body, appendix}
		}
	}
	mode := Pick(rs, c12Modes)
	// under --front-matter the `filename` operator reports the random temp
	// file name (a C18 finding): NEW would not be well defined, so it is not drawn here
	okExpr := func(e Expr) bool {
		return !strings.Contains(e.Family, "error") && !strings.Contains(e.Family, "splitdoc") && !(frontMatter && strings.Contains(e.S, "filename"))
	}
	exprE := GenExprWhere(r.Fork("expr"), okExpr)
	if rs.Chance(2, 3) {
		exprE = GenExprWhere(r.Fork("expr2"), func(e Expr) bool { return e.Mutating && okExpr(e) })
	}
	expr := exprE.Combined()
	alts := exprE.Alts
	argv := []string{}
	evalAll := rs.Chance(1, 4)
	if evalAll {
		argv = append(argv, "ea")
	}
	switch kinds[kind] {
	case "parse-error":
		expr = Pick(rs, []string{".a = ", ".a | | .b", "(.a", ".a]", "{", "select(", ".a as", "\"unterminated", ".[", ".a + + ", "and"})
		alts = nil
	case "eval-error":
		k := rs.Intn(ndocs)
		expr = fmt.Sprintf("select(di == %d) |= error(\"boom\")", k)
		if rs.Chance(1, 2) {
			expr = fmt.Sprintf("(%s) | (select(di == %d) | error(\"boom\")), .", exprE.Combined(), k)
		}
		alts = nil
	case "decode-error":
		k := rs.Intn(len(docs))
		bad := Pick(rs, []string{"a: [1, 2\n", "\tx: 1\n", "a: b: c\n", "a: \"unterminated\n", "- x\ny: 1\n", "a: *nope\n", "{a: 1\n", "a: 1\n  b: 2\n c: 3\n"})
		if k > 0 {
			docs[k] = "---\n" + bad
		} else {
			docs[k] = bad
		}
	case "no-match-e":
		argv = append(argv, "-e")
		expr = Pick(rs, []string{".missing", "select(.a > 100)", ".g", ".missing.deep", "false", "null"})
		alts = nil
	case "encode-error":
		argv = append(argv, Pick(rs, []string{"-o=csv", "-o=xml", "-o=toml", "-o=tsv", "-o=base64", "-o=uri", "-o=shell"}))
		expr = Pick(rs, []string{".", ".d", ".e", ".c", "[.d]", ".b"})
		alts = nil
	}
	if kind == 0 || kind == 2 || kind == 3 {
		switch rs.Weighted([]int{6, 2, 1, 1}) {
		case 1:
			argv = append(argv, "-o=json")
			if rs.Chance(1, 2) {
				argv = append(argv, "-I0")
			}
		case 2:
			argv = append(argv, "-o=props")
		case 3:
			argv = append(argv, "-P")
		}
		if rs.Chance(1, 6) {
			argv = append(argv, "-N")
		}
	}
	if jsonTarget {
		argv = append(argv, Pick(rs, []string{"-p=json", "-p=j", "--input-format=json"}))
	}
	argv = append(argv, "-i")
	refusedWith := ""
	if kinds[kind] == "refused" {
		// combinations that cannot work in place: they must be refused before anything is touched
		refusedWith = Pick(rs, []string{"-s=.id", "--split-exp=.id", "--split-exp-file=split.yq", "--split-exp-file=split.yq", "-n"})
		argv = append(argv, refusedWith)
		sc.Meta["must_refuse"] = refusedWith
	}
	if frontMatter {
		argv = append(argv, "--front-matter=process")
	}
	argv = append(argv, expr, target)
	sc.Files = []File{{Name: target, Docs: docs, Mode: mode}}
	if strings.HasPrefix(refusedWith, "--split-exp-file") {
		sc.Files = append(sc.Files, File{Name: "split.yq", Data: Bytes(Pick(rs, []string{".id", "filename", "\"out\" + $index"})), Mode: 0644})
	}
	if !frontMatter && rs.Chance(1, 5) {
		// extra input files are read but never written
		g := &DocGen{R: r.Fork("extra"), Plain: true}
		sc.Files = append(sc.Files, File{Name: "extra.yaml", Docs: []string{g.Doc(DocID(r, 1, 0)).YAML()}, Mode: 0644})
		argv = append(argv, "extra.yaml")
	}
	if !frontMatter && rs.Chance(1, 15) {
		// the target has a second hard link: the other name must keep the old content (yq replaces the file, it does not write into it)
		sc.Files = append(sc.Files, File{Name: "other-link.yaml", Hardlink: target})
		sc.Meta["hardlinked"] = true
	} else if !frontMatter && rs.Chance(1, 12) {
		// the target is reached through a relative symbolic link from another directory, and a file with
		// the name of the link's destination also exists where yq is started: only the named path may change
		linkDest := "base.yaml"
		sc.Files = append(sc.Files,
			File{Name: "conf/" + linkDest, Docs: sc.Files[0].Docs, Mode: sc.Files[0].Mode},
			File{Name: linkDest, Data: Bytes("decoy: true\n"), Mode: 0644})
		sc.Files[0] = File{Name: "conf/current.yaml", Symlink: linkDest}
		for k, a := range argv {
			if a == target {
				argv[k] = "conf/current.yaml"
			}
		}
		target = "conf/current.yaml"
		sc.Meta["via_symlink"] = true
	}
	if !frontMatter && kinds[kind] == "ok" && sc.MetaString("name_class") == "" && !sc.MetaBool("hardlinked") && !sc.MetaBool("via_symlink") && rs.Chance(1, 14) {
		// a volume with room for the file but not for a second copy of it: the target gets a long scalar and the
		// working directory becomes a file system of its own (TMPDIR is then on another one by construction)
		pad := rs.Range(48, 72) * 1024
		if len(sc.Files[0].Docs) > 0 {
			sc.Files[0].Docs[0] = strings.TrimRight(sc.Files[0].Docs[0], "\n") + "\npad: \"" + strings.Repeat("x", pad) + "\"\n"
			pages := 4 // directory entries and slack
			for i := range sc.Files {
				pages += (len(sc.Files[i].Bytes()) + 4095) / 4096
			}
			pages += (len(sc.Files[0].Bytes())+4095)/4096/2 // room for half a second copy of the target
			sc.DiskKiB = 4 * pages
			sc.Meta["small_disk"] = true
		}
	}
	sc.Argv = argv
	sc.Meta["expr"] = expr
	sc.Meta["family"] = exprE.Family
	sc.Meta["target"] = target
	sc.Meta["keep_flags"] = []any{"-i", "--front-matter=process"}
	if len(alts) > 0 {
		as := make([]any, len(alts))
		for i, a := range alts {
			as[i] = a
		}
		sc.Meta["expr_alts"] = as
	}
	sc.TmpOther = c.W.DiskRoot != "" && rs.Chance(3, 10)
	sc.TmpMissing = rs.Chance(1, 15)
	if rs.Chance(1, 20) {
		// colours forced into the file: the same bytes as without -i
		sc.Argv = append([]string{"-C"}, sc.Argv...)
	}
	if rt := r.Fork("terminal"); rt.Chance(1, 5) {
		// standard output is a character device, as on a terminal: yq then turns colours on by itself, and
		// must turn them off again for the file (the reference run prints into a pipe)
		sc.StdoutCharDev = true
	}
	if rn := r.Fork("nulsep"); rn.Chance(1, 8) {
		// NUL-separated records: the record rule must not reach the text after the front matter (O12.4)
		sc.Argv = append([]string{"-0"}, sc.Argv...)
	}
	// second, hook-free fault layer: the real rename(2) is made to fail at the
	// syscall boundary, which sends yq into the fallback on one file system too
	straceOdds := 25
	if c.Tier == "thorough" {
		straceOdds = 8
	}
	if !sc.TmpOther && c.W.Strace != "" && rs.Chance(1, straceOdds) {
		sc.Strace = "renameat:error=" + Pick(rs, []string{"EBUSY", "EACCES", "EXDEV", "EPERM"})
	}
	if frontMatter && sc.Strace == "" && c.W.Strace != "" && rs.Chance(1, 4) {
		// the front matter is copied to a temp file of its own before anything else is written
		sc.Strace = "write:error=" + Pick(rs, []string{"ENOSPC", "EIO"}) + ":when=" + strconv.Itoa(rs.Range(1, 4))
	}
	if sc.Strace == "" && c.W.Strace != "" && rs.Chance(1, straceOdds) {
		// faults at system calls that have no hook in front of them
		sc.Strace = Pick(rs, []string{
			"fsync:error=EIO", "fsync:error=EIO", "fdatasync:error=EIO", "unlinkat:error=EACCES", "fchmodat:error=EPERM", "fchownat:error=EPERM",
			"write:error=ENOSPC:when=" + strconv.Itoa(rs.Range(1, 6)), "write:error=EIO:when=" + strconv.Itoa(rs.Range(1, 6)), "write:error=ENOSPC:when=" + strconv.Itoa(rs.Range(1, 3)) + "+",
			"close:error=EIO:when=" + strconv.Itoa(rs.Range(3, 9)),
		})
	}
	sc.Plan.Watch = []string{target}

	// read schedule
	rf := r.Fork("faults")
	if rf.Chance(1, 3) {
		sc.Plan.Readers = append(sc.Plan.Readers, ReaderPlan{Stream: "input", Name: "", Chunks: genChunks(rf), ErrAt: -1, EOFWithData: rf.Chance(1, 4)})
		if frontMatter {
			sc.Plan.Readers = append(sc.Plan.Readers, ReaderPlan{Stream: "fm", Name: "", Chunks: genChunks(rf), ErrAt: -1, EOFWithData: rf.Chance(1, 4)})
		}
	}
	if rf.Chance(1, 4) {
		return sc // fault-free configuration
	}
	// place faults inside in-flight work: learn the step sequence first
	if sc.TmpOther && rf.Chance(1, 3) {
		// close the sibling route so that the last resort (overwrite in place) runs
		sc.Plan.Steps = append(sc.Plan.Steps, StepFault{Site: Pick(rf, []string{"copy.sibling.create", "copy.sibling.rename"}), Occ: 1, Action: "error", Errno: Pick(rf, []string{"EACCES", "EROFS", "EBUSY"})})
	}
	pre := c.ExecOpts(withReadCounting(sc), RunOpts{})
	c.Count("prerun")
	type so struct {
		site string
		occ  int
	}
	var steps []so
	var outBytes, inBytes int64
	for _, e := range pre.Events {
		switch e.Kind {
		case "step", "stepfile":
			steps = append(steps, so{e.Site, e.Occ})
		case "write":
			n, _ := strconv.Atoi(strings.SplitN(e.Info, "/", 2)[0])
			outBytes += int64(n)
		case "read":
			if e.Decision == "data" || e.Decision == "data+eof" {
				n, _ := strconv.Atoi(e.Info)
				inBytes += int64(n)
			}
		}
	}
	nf := rf.Weighted([]int{0, 70, 22, 8})
	for k := 0; k < nf; k++ {
		switch rf.Weighted([]int{30, 25, 12, 10, 10, 8, 8}) {
		case 6: // a runtime failure (panic) inside the evaluation: the deferred finalisers run while it unwinds
			sc.Plan.PanicSite = Pick(rf, []string{"op", "op", "print.node", "print.node", "print", "decode", "lex.token"})
			sc.Plan.PanicAt = int64(rf.Range(1, 6))
			if sc.Plan.PanicSite == "op" {
				sc.Plan.PanicAt = int64(rf.Range(1, 40))
			}
		case 0: // errno at a step
			if len(steps) == 0 {
				continue
			}
			s := Pick(rf, steps)
			if !errorable[s.site] {
				// bias: pick an errorable one if there is any
				var es []so
				for _, x := range steps {
					if errorable[x.site] {
						es = append(es, x)
					}
				}
				if len(es) == 0 {
					continue
				}
				s = Pick(rf, es)
			}
			sc.Plan.Steps = append(sc.Plan.Steps, StepFault{Site: s.site, Occ: s.occ, Action: "error", Errno: Pick(rf, []string{"EACCES", "EIO", "ENOSPC", "EMFILE", "EROFS", "EPERM"})})
		case 1: // kill at a step boundary
			if len(steps) == 0 {
				continue
			}
			s := Pick(rf, steps)
			sc.Plan.Steps = append(sc.Plan.Steps, StepFault{Site: s.site, Occ: s.occ, Action: "kill"})
		case 2: // write error with partial write
			sc.Plan.Writers = []WriterPlan{{Stream: "out", FailAt: biasedOffset(rf, outBytes), Errno: Pick(rf, []string{"ENOSPC", "EIO", "EDQUOT"}), KillAt: -1}}
		case 3: // kill in the middle of writing the temp file
			sc.Plan.Writers = []WriterPlan{{Stream: "out", FailAt: -1, KillAt: biasedOffset(rf, outBytes)}}
		case 4: // close fails, tail lost
			keep := int64(0)
			if outBytes > 0 {
				keep = int64(rf.Intn(int(outBytes)))
			}
			sc.Plan.Steps = append(sc.Plan.Steps, StepFault{Site: "inplace.closeTemp", Occ: 1, Action: "closefault", Keep: keep})
		case 5: // read error
			stream := "input"
			if frontMatter && rf.Chance(1, 2) {
				stream = "fm"
			}
			rp := ReaderPlan{Stream: stream, Name: "", ErrAt: biasedOffset(rf, inBytes), Errno: "EIO"}
			if rf.Chance(1, 2) {
				rp.Chunks = genChunks(rf)
			}
			// replace any fault-free schedule for that stream
			var rest []ReaderPlan
			for _, x := range sc.Plan.Readers {
				if x.Stream != stream {
					rest = append(rest, x)
				}
			}
			sc.Plan.Readers = append(rest, rp)
		}
	}
	return sc
}

var errorable = map[string]bool{
	"tmp.create": true, "inplace.statTarget": true, "inplace.chmod": true, "copy.openSrc": true, "copy.createDst": true,
	"copy.copy": true, "copy.sync": true, "fm.open": true, "fm.write": true, "input.open": true, "load.open": true,
	"copy.sibling.create": true, "copy.sibling.copy": true, "copy.sibling.chmod": true, "copy.sibling.sync": true, "copy.sibling.rename": true,
}

func genChunks(r *Rand) []int {
	switch r.Intn(6) {
	case 0:
		return []int{1}
	case 1:
		return []int{1, 2}
	case 2:
		return []int{3, 1, 4, 1, 5}
	case 3:
		return []int{7, 64}
	case 4:
		return []int{4096}
	default:
		n := r.Range(1, 5)
		cs := make([]int, n)
		for i := range cs {
			cs[i] = Pick(r, []int{1, 2, 3, 4, 5, 7, 64, 4096})
		}
		return cs
	}
}

// biasedOffset draws an offset in [0,total], biased towards the ends and
// buffer boundaries.
func biasedOffset(r *Rand, total int64) int64 {
	if total <= 0 {
		return 0
	}
	cands := []int64{0, 1, total - 1, total, 4095, 4096, 4097}
	if r.Chance(1, 3) {
		x := Pick(r, cands)
		if x >= 0 && x <= total {
			return x
		}
	}
	return int64(r.Intn(int(total) + 1))
}

func classifyState(cur FileState, present bool, old, neu *FileState) string {
	if !present {
		return "ABSENT"
	}
	switch {
	case bytes.Equal(cur.Data, old.Data) && neu != nil && bytes.Equal(cur.Data, neu.Data):
		return "BOTH"
	case bytes.Equal(cur.Data, old.Data):
		return "OLD"
	case neu != nil && bytes.Equal(cur.Data, neu.Data):
		return "NEW"
	case len(cur.Data) == 0:
		return "EMPTY"
	case neu != nil && bytes.HasPrefix(neu.Data, cur.Data):
		return "PREFIX_NEW"
	case bytes.HasPrefix(old.Data, cur.Data):
		return "PREFIX_OLD"
	}
	return "OTHER"
}

func withoutInplace(argv []string) []string {
	var out []string
	for _, a := range argv {
		if a == "-i" || a == "--inplace" {
			continue
		}
		out = append(out, a)
	}
	return out
}

func faultTags(o *Outcome) string {
	seen := map[string]bool{}
	var tags []string
	for _, e := range o.Events {
		var t string
		switch {
		case strings.HasPrefix(e.Decision, "error:"):
			t = "err@" + e.Site
		case e.Decision == "kill":
			t = "kill@" + e.Site
		case e.Decision == "panic":
			t = "panic@" + e.Site
		case strings.HasPrefix(e.Decision, "closefault"):
			t = "closefault@" + e.Site
		}
		if e.Kind == "read" && t != "" {
			t = "readerr@" + strings.SplitN(e.Site, ":", 2)[0]
		}
		if t != "" && !seen[t] {
			seen[t] = true
			tags = append(tags, t)
		}
	}
	sort.Strings(tags)
	if len(tags) == 0 {
		return "none"
	}
	return strings.Join(tags, "+")
}

func (C12) Judge(c *Ctx, sc *Scenario) []Violation {
	target := sc.MetaString("target")
	tf := sc.File(target)
	if tf == nil {
		harnessPanic("C12 scenario without target")
	}
	mode := tf.Mode
	if mode == 0 {
		mode = 0644
	}
	old := FileState{Mode: mode, Data: tf.Bytes()}
	if tf.Symlink != "" {
		// what the path holds is what the link's destination holds
		if dest := sc.File("conf/" + tf.Symlink); dest != nil {
			old = FileState{Mode: dest.Mode, Data: dest.Bytes()}
			mode = dest.Mode
		}
	}
	// NEW := stdout of the same command without -i (fault-free, fresh process)
	ref := c.Ref(withoutInplace(sc.Argv), sc.Files, sc.Stdin)
	var neu *FileState
	if ref.Exit == 0 && ref.Signal == 0 {
		neu = &FileState{Mode: mode, Data: ref.Stdout}
	}
	out := c.Exec(sc)
	if out.TimedOut {
		return []Violation{{Prop: "C12", Oracle: "O12.0", Sig: "O12.0 watchdog", Msg: "yq -i did not terminate within the watchdog"}}
	}
	if out.Exit == ExitBudget || out.Exit == ExitPoll {
		return []Violation{{Prop: "C12", Oracle: "O12.0", Sig: "O12.0 budget", Msg: "yq -i exceeded the step budget"}}
	}
	path := "none"
	for _, e := range out.Events {
		if e.Site == "inplace.rename" && path == "none" {
			path = "rename"
		}
		if strings.HasPrefix(e.Site, "copy.") && path != "inplace" {
			path = "sibling" // the fallback: copy into a temp next to the target, rename
		}
		if e.Site == "copy.createDst" {
			path = "inplace" // the last resort: the target is overwritten in place
		}
	}
	// was the sibling route (temp next to the target + rename) really unavailable when the target was overwritten in place?
	route := "open"
	for _, e := range out.Events {
		if (e.Site == "copy.sibling.create" || e.Site == "copy.sibling.rename") && strings.HasPrefix(e.Decision, "error:") {
			route = "closed"
		}
	}
	if strings.HasPrefix(sc.Strace, "renameat") {
		route = "closed"
	}
	hasSiblingHooks := false
	for _, e := range out.Events {
		if strings.HasPrefix(e.Site, "copy.sibling.") {
			hasSiblingHooks = true
		}
	}
	if len(out.Events) == 0 {
		for _, f := range sc.Plan.Steps {
			if f.Action == "error" && (f.Site == "copy.sibling.create" || f.Site == "copy.sibling.rename") {
				route = "closed"
			}
		}
	} else if !hasSiblingHooks {
		route = "none" // a tree without the sibling route
	}
	faults := faultTags(out)
	if sc.Strace != "" && !strings.HasPrefix(sc.Strace, "renameat") {
		// faults injected at the system-call boundary leave no hook event
		tag := "strace:" + strings.SplitN(sc.Strace, ":", 2)[0]
		if faults == "none" {
			faults = tag
		} else {
			faults += "+" + tag
		}
	}
	// a fault the kernel raised by itself: the small volume ran out of room. It leaves no hook event; it is
	// recognised by the kernel's own account (no free block left when the process had ended) together with
	// the errno in yq's report, whatever else was injected in that run
	diskFull := out.SmallDisk && out.DiskFree == 0 && bytes.Contains(out.Stderr, []byte("no space left on device"))
	if diskFull {
		if faults == "none" {
			faults = "disk:full"
		} else {
			faults += "+disk:full"
		}
	}
	if len(out.Events) == 0 {
		// untraced run (write faults by strace): the path is known from the set-up
		path = "rename"
		if sc.TmpOther || out.SmallDisk {
			path = "sibling" // a small disk is a file system of its own: TMPDIR is on another one
			for _, f := range sc.Plan.Steps {
				if f.Action == "error" && (f.Site == "copy.sibling.create" || f.Site == "copy.sibling.rename") {
					path = "inplace"
				}
			}
		}
	}
	nontrivial := faults != "none" || path == "sibling" || path == "inplace"
	if !c.Quiet {
		c.Stats.Distinct(out.TraceSig(), nontrivial)
		c.Stats.DistinctIn("step sequences with fault decisions (normalised trace)", out.TraceSig())
		if sc.Strace != "" && !strings.HasPrefix(sc.Strace, "renameat") {
			c.Count("fired.strace." + strings.SplitN(sc.Strace, ":", 2)[0])
		}
		if path == "inplace" {
			c.Count("probe.target_overwritten_in_place")
		}
		if path == "sibling" || path == "inplace" {
			if strings.HasPrefix(sc.Strace, "renameat") {
				c.Count("fired.strace." + sc.Strace)
				c.Count("probe.rename_failed_by_strace_took_fallback")
			} else {
				c.Count("probe.rename_took_EXDEV_fallback")
			}
		}
		if faults == "none" {
			c.Count("config.fault_free")
		} else {
			c.Count("config.faulted")
		}
		c.Count("kind." + sc.MetaString("kind"))
		for _, e := range out.Events {
			if e.Kind == "write" && e.Decision != "pass" {
				c.Count("probe.fault_landed_in_output_write")
			}
		}
	}
	cur, present := out.Files[target]
	if present && tf.Symlink != "" && bytes.HasPrefix(cur.Data, []byte("-> ")) {
		// still the link: what the path holds is what its destination holds
		cur, present = out.Files["conf/"+strings.TrimPrefix(string(cur.Data), "-> ")]
	}
	state := classifyState(cur, present, &old, neu)
	modeTag := "same"
	if present && cur.Mode != old.Mode {
		modeTag = "changed"
	}
	killed := out.Signal == 9
	var vs []Violation
	add := func(oracle, detail, msg string) {
		pathTag := path
		if path == "inplace" {
			pathTag = "inplace route=" + route
		}
		sig := fmt.Sprintf("%s %s path=%s fault=%s", oracle, detail, pathTag, faults)
		vs = append(vs, Violation{Prop: "C12", Oracle: oracle, Sig: sig, Class: oracle + " " + detail + " path=" + path, Msg: msg + " | argv=" + strings.Join(sc.Argv, " "),
			// strace counts `when=N` per thread and the Go runtime decides which thread issues a system call:
			// the observed outcome stands, but which call is hit may differ in a replay
			Probabilistic: strings.Contains(sc.Strace, "when=")})
	}
	// the panic is the injected one if it was raised inside the hook's Yield (message and trace line may
	// themselves be lost to a write fault that strace injects into the same process)
	injectedPanic := sc.Plan.PanicAt > 0 && bytes.Contains(out.Stderr, []byte("verifhook.(*planController).Yield("))
	for _, e := range out.Events {
		if e.Decision == "panic" {
			injectedPanic = true
		}
	}
	if crashed, how := out.Crashed(); crashed && !injectedPanic {
		add("O12.0", "crash="+how, "yq -i crashed: "+firstLines(out.Stderr, 6))
	}
	if out.SmallDisk && !c.Quiet {
		c.Count("probe.volume_without_room_for_a_second_copy")
		if diskFull {
			c.Count("fired.disk_full")
			if path == "inplace" {
				c.Count("probe.volume_ran_out_of_room_while_the_target_was_overwritten_in_place")
			}
		}
	}
	if injectedPanic && !c.Quiet {
		c.Count("probe.runtime_failure_unwound_through_the_in_place_finaliser")
	}
	if out.Signal != 0 && !killed {
		add("O12.0", fmt.Sprintf("signal=%d", out.Signal), "yq -i ended by an unexpected signal")
	}
	switch {
	case killed:
		// O12.2: complete old or complete new, mode unchanged
		if !(state == "OLD" || state == "NEW" || state == "BOTH") || modeTag != "same" {
			add("O12.2", "state="+state+" mode="+modeTag, fmt.Sprintf("after SIGKILL the target is %s (%s), mode %04o (was %04o)", state, cur, cur.Mode, old.Mode))
		}
	case out.Exit == 0 && sc.MetaString("must_refuse") != "" && containsArg(sc.Argv, sc.MetaString("must_refuse")):
		add("O12.1", "exit=0 accepted="+strings.SplitN(sc.MetaString("must_refuse"), "=", 2)[0]+" state="+state, fmt.Sprintf("yq -i together with %s cannot write the results back and must be refused, but it exited 0; the target is %s", sc.MetaString("must_refuse"), state))
	case out.Exit == 0:
		if neu == nil {
			add("O12.1", "exit=0 ref=fails state="+state, fmt.Sprintf("yq -i exited 0 but the same command without -i fails (exit %d: %s); target is %s", ref.Exit, firstLines(ref.Stderr, 2), state))
		} else if (state != "NEW" && state != "BOTH") || modeTag != "same" {
			add("O12.1", "exit=0 state="+state+" mode="+modeTag, fmt.Sprintf("yq -i exited 0 but the target is %s, mode %04o (was %04o); expected %d bytes, has %d", state, cur.Mode, old.Mode, len(neu.Data), len(cur.Data)))
		}
	default:
		if (state != "OLD" && state != "BOTH") || modeTag != "same" {
			add("O12.1", "exit=nonzero state="+state+" mode="+modeTag, fmt.Sprintf("yq -i exited %d (%s) but the target is %s, mode %04o (was %04o)", out.Exit, firstLines(out.Stderr, 2), state, cur.Mode, old.Mode))
		}
	}
	// O12.3: the target is OLD or NEW at every hook event, OLD never after NEW
	oldS := old.String()
	newS := ""
	if neu != nil {
		newS = neu.String()
	}
	seenNew := false
	for _, e := range out.Events {
		if e.Snap == "" {
			continue
		}
		snap := strings.Split(e.Snap, ",")[0]
		switch {
		case snap == oldS && snap == newS:
		case snap == oldS:
			if seenNew {
				add("O12.3", "order=OLD-after-NEW at="+e.Site, "the target went back from NEW to OLD at "+e.Site)
			}
		case snap == newS:
			seenNew = true
		default:
			st := "OTHER"
			if strings.Contains(snap, ":0:") {
				st = "EMPTY"
			} else if snap == "absent" {
				st = "ABSENT"
			} else if strings.HasPrefix(snap, fmt.Sprintf("%04o:", old.Mode)) == false {
				st = "MODE"
			}
			add("O12.3", "snapshot="+st+" at="+e.Site, fmt.Sprintf("at hook event %d (%s) the target is neither OLD nor NEW (%s; OLD=%s NEW=%s): a kill here leaves a torn file", e.Seq, e.Site, snap, oldS, newS))
		}
		if len(vs) > 0 && vs[len(vs)-1].Oracle == "O12.3" {
			break
		}
	}
	if !c.Quiet {
		nb := 0
		for _, e := range out.Events {
			if e.Snap != "" {
				nb++
			}
		}
		c.Stats.Add("crash_points_decided_by_snapshot", int64(nb))
	}
	// O12.5 frame: nothing but the target changes (other inputs, a link's destination, same-named files elsewhere)
	for _, f := range sc.Files {
		if f.Hardlink != "" {
			if path == "inplace" {
				continue // the last-resort route writes into the inode by definition (known finding: it is not atomic either)
			}
			// the other name of the old inode keeps the old bytes
			got, ok := out.Files[f.Name]
			if !ok || !bytes.Equal(got.Data, old.Data) {
				add("O12.5", "frame file="+f.Name, fmt.Sprintf("yq -i %s wrote into the file itself: its other hard link %s is now %s (old %s)", target, f.Name, got, old))
				break
			}
			continue
		}
		if f.Name == target || f.Name == "-" || f.Missing || f.Dir || f.Symlink != "" {
			continue
		}
		if tf.Symlink != "" && f.Name == "conf/"+tf.Symlink {
			continue // the destination of the link: the statement is about the named path
		}
		got, ok := out.Files[f.Name]
		fmode := f.Mode
		if fmode == 0 {
			fmode = 0644
		}
		if !ok || !bytes.Equal(got.Data, f.Bytes()) || got.Mode != fmode {
			add("O12.5", "frame file="+f.Name, fmt.Sprintf("yq -i %s changed another file: %s is now %s", target, f.Name, got))
			break
		}
	}
	// O12.4: front matter appendix preserved byte for byte
	if containsArg(sc.Argv, "--front-matter=process") && present && (state == "NEW" || state == "BOTH") {
		app := frontMatterAppendix(old.Data)
		if !bytes.HasSuffix(cur.Data, app) {
			add("O12.4", "appendix=changed", fmt.Sprintf("text after the front matter is not preserved: want suffix %q, file ends %q", tail(app, 60), tail(cur.Data, 60)))
		}
		if !c.Quiet {
			c.Count("probe.front_matter_appendix_checked")
		}
	}
	return vs
}

func containsArg(argv []string, a string) bool {
	for _, x := range argv {
		if x == a {
			return true
		}
	}
	return false
}

// frontMatterAppendix: everything from the first line after line 0 that
// starts with "---" (the documented front-matter terminator).
func frontMatterAppendix(data []byte) []byte {
	off := 0
	line := 0
	for off < len(data) {
		if line > 0 && bytes.HasPrefix(data[off:], []byte("---")) {
			return data[off:]
		}
		i := bytes.IndexByte(data[off:], '\n')
		if i < 0 {
			break
		}
		off += i + 1
		line++
	}
	return nil
}

func tail(b []byte, n int) string {
	if len(b) > n {
		return "…" + string(b[len(b)-n:])
	}
	return string(b)
}

func firstLines(b []byte, n int) string {
	lines := strings.Split(strings.TrimSpace(string(b)), "\n")
	if len(lines) > n {
		lines = lines[:n]
	}
	s := strings.Join(lines, " / ")
	if len(s) > 400 {
		s = s[:400] + "…"
	}
	return s
}

// withReadCounting returns a copy of the scenario in which every input stream goes through the
// reader wrapper (whole-file delivery, no fault), so that the trace carries the byte counts.
func withReadCounting(sc *Scenario) *Scenario {
	c := sc.Clone()
	for _, stream := range []string{"input", "fm", "load"} {
		covered := false
		for _, r := range c.Plan.Readers {
			if r.Stream == stream && r.Name == "" {
				covered = true
			}
		}
		if !covered {
			c.Plan.Readers = append(c.Plan.Readers, ReaderPlan{Stream: stream, ErrAt: -1})
		}
	}
	return c
}
