package sim

import (
	"bufio"
	"encoding/json"
	"fmt"
	"os"
	"path/filepath"
	"regexp"
	"sort"
	"strings"
	"sync"
	"sync/atomic"
	"time"
)

// Violation is one oracle failing on one scenario.
type Violation struct {
	Prop   string `json:"property"`
	Oracle string `json:"oracle"`
	Sig    string `json:"sig"` // oracle + site/class; matched against known findings
	// Class is what the shrinker must preserve (oracle + the part of the
	// signature that does not name removable faults); empty = oracle only.
	Class string `json:"class,omitempty"`
	// Probabilistic marks evidence from the free-running race stage: the race
	// detector has no false positives, but whether a run exhibits the race is not
	// decided by the simulator, so a report stands even if a replay stays quiet.
	Probabilistic bool   `json:"probabilistic,omitempty"`
	Msg           string `json:"msg"`
}

func (v Violation) String() string { return v.Prop + " " + v.Sig + " :: " + v.Msg }

// Stats collects what actually happened, for the evidence file.
type Stats struct {
	mu        sync.Mutex
	counters  map[string]int64
	distinct  map[string]struct{}
	nontriv   map[string]struct{}
	groups    map[string]map[string]struct{}
	samples   []any
	Processes int64
	Steps     int64
}

func NewStats() *Stats {
	return &Stats{counters: map[string]int64{}, distinct: map[string]struct{}{}, nontriv: map[string]struct{}{}}
}

func (s *Stats) Add(key string, n int64) {
	s.mu.Lock()
	s.counters[key] += n
	s.mu.Unlock()
}

// DistinctIn counts distinct signatures per named group (e.g. interleavings).
func (s *Stats) DistinctIn(group, sig string) {
	s.mu.Lock()
	if s.groups == nil {
		s.groups = map[string]map[string]struct{}{}
	}
	if s.groups[group] == nil {
		s.groups[group] = map[string]struct{}{}
	}
	s.groups[group][sig] = struct{}{}
	s.mu.Unlock()
}

func (s *Stats) Distinct(sig string, nontrivial bool) {
	s.mu.Lock()
	s.distinct[sig] = struct{}{}
	if nontrivial {
		s.nontriv[sig] = struct{}{}
	}
	s.mu.Unlock()
}

func (s *Stats) Sample(x any, max int) {
	s.mu.Lock()
	if len(s.samples) < max {
		s.samples = append(s.samples, x)
	}
	s.mu.Unlock()
}

// Ctx is what a check sees while generating and judging one scenario.
type Ctx struct {
	W     *World
	Slot  int
	Stats *Stats
	Tier  string
	cache *refCache
	// Quiet suppresses stats recording (used by the shrinker and replays).
	Quiet bool
}

func (c *Ctx) Count(key string) {
	if !c.Quiet {
		c.Stats.Add(key, 1)
	}
}

// Exec runs a scenario and records reach statistics.
func (c *Ctx) Exec(sc *Scenario) *Outcome {
	return c.ExecOpts(sc, RunOpts{})
}

func (c *Ctx) ExecOpts(sc *Scenario, o RunOpts) *Outcome {
	o.Slot = c.Slot
	out := c.W.Run(sc, o)
	if !c.Quiet {
		atomic.AddInt64(&c.Stats.Processes, 1)
		atomic.AddInt64(&c.Stats.Steps, int64(len(out.Events))+out.Yields)
		for _, f := range out.Fired() {
			c.Stats.Add("fired."+f, 1)
		}
		seen := map[string]bool{}
		for _, e := range out.Events {
			if e.Kind == "step" || e.Kind == "stepfile" {
				if !seen[e.Site] {
					seen[e.Site] = true
					c.Stats.Add("site."+e.Site, 1)
				}
			}
		}
	}
	return out
}

// Ref runs a fault-free, untraced, whole-read execution of (argv, files,
// stdin) in a fresh process; results are cached by content.
func (c *Ctx) Ref(argv []string, files []File, stdin *Bytes) *Outcome {
	key := refKey(argv, files, stdin)
	if o := c.cache.get(key); o != nil {
		if !c.Quiet {
			c.Stats.Add("ref.cache_hit", 1)
		}
		return o
	}
	sc := &Scenario{Kind: "proc", Argv: argv, Files: files, Stdin: stdin}
	out := c.ExecOpts(sc, RunOpts{})
	c.cache.put(key, out)
	return out
}

func refKey(argv []string, files []File, stdin *Bytes) string {
	var b strings.Builder
	for _, a := range argv {
		fmt.Fprintf(&b, "%d:%s|", len(a), a)
	}
	for _, f := range files {
		fmt.Fprintf(&b, "F%s:%o:%v:%v:%s|", f.Name, f.Mode, f.Dir, f.Missing, shortHash(f.Bytes()))
	}
	if stdin != nil {
		b.WriteString("S" + shortHash(*stdin))
	}
	return shortHash([]byte(b.String())) + shortHash([]byte("x"+b.String()))
}

type refCache struct {
	mu sync.Mutex
	m  map[string]*Outcome
}

func (c *refCache) get(k string) *Outcome {
	c.mu.Lock()
	defer c.mu.Unlock()
	return c.m[k]
}
func (c *refCache) put(k string, o *Outcome) {
	c.mu.Lock()
	if len(c.m) > 200000 {
		c.m = map[string]*Outcome{}
	}
	c.m[k] = o
	c.mu.Unlock()
}

// Check is one property's machinery.
type Check interface {
	ID() string
	Level() string
	// Generate builds scenario number index of the batch.
	Generate(c *Ctx, r *Rand, index int) *Scenario
	// Judge executes the scenario and evaluates the property's oracles.
	Judge(c *Ctx, sc *Scenario) []Violation
	// Describe returns evidence text: rule, assumptions, components.
	Describe() CheckInfo
}

type CheckInfo struct {
	Rule        string
	Assumptions []string
	Real        []string
	Stubbed     []string
}

// --- known findings ----------------------------------------------------------

type Finding struct {
	Kind    string // "known" | "fixed"
	Prop    string
	Pattern *regexp.Regexp
	Witness string
	Text    string
	Raw     string
}

func LoadFindings(path string) []Finding {
	f, err := os.Open(path)
	if err != nil {
		return nil
	}
	defer f.Close()
	var res []Finding
	sc := bufio.NewScanner(f)
	sc.Buffer(make([]byte, 1<<20), 1<<20)
	for sc.Scan() {
		line := strings.TrimSpace(sc.Text())
		if line == "" || strings.HasPrefix(line, "#") {
			continue
		}
		fd := Finding{Raw: line}
		head, text, _ := strings.Cut(line, " :: ")
		fd.Text = text
		if k := strings.Index(head, " sig="); k >= 0 {
			pat := strings.TrimSpace(head[k+5:])
			head = head[:k]
			re, err := regexp.Compile("^(?:" + pat + ")$")
			if err != nil {
				harnessPanic("bad known-finding pattern %q: %v", pat, err)
			}
			fd.Pattern = re
		}
		fields := strings.Fields(head)
		if len(fields) == 0 {
			continue
		}
		fd.Kind = strings.TrimSuffix(fields[0], ":")
		for _, fl := range fields[1:] {
			k, v, ok := strings.Cut(fl, "=")
			if !ok {
				continue
			}
			switch k {
			case "property":
				fd.Prop = v
			case "witness":
				fd.Witness = v
			}
		}
		res = append(res, fd)
	}
	return res
}

func matchKnown(fs []Finding, v Violation) *Finding {
	for i := range fs {
		f := &fs[i]
		if f.Kind == "known" && f.Prop == v.Prop && f.Pattern != nil && f.Pattern.MatchString(v.Sig) {
			return f
		}
	}
	return nil
}

// --- batch runner --------------------------------------------------------------

type BatchConfig struct {
	Seed      uint64
	Tier      string
	Budget    time.Duration
	MinRuns   int
	MaxRuns   int
	Workers   int
	VerifDir  string
	ShrinkFor time.Duration
	MaxFound  int
}

type found struct {
	sc *Scenario
	v  Violation
}

// RunBatch explores scenarios of one check and returns the process exit code.
func RunBatch(w *World, chk Check, cfg BatchConfig) int {
	start := time.Now()
	stats := NewStats()
	cache := &refCache{m: map[string]*Outcome{}}
	findings := LoadFindings(filepath.Join(cfg.VerifDir, "known_findings.txt"))
	fmt.Printf("property=%s tier=%s VERIF_SEED=%d workers=%d budget=%s\n", chk.ID(), cfg.Tier, cfg.Seed, cfg.Workers, cfg.Budget)

	exit := 0
	var knownReported []string
	var knownStale []string
	// 1. replay the witnesses of known findings
	for _, f := range findings {
		if f.Kind != "known" || f.Prop != chk.ID() || f.Witness == "" {
			continue
		}
		sc, err := LoadScenario(filepath.Join(cfg.VerifDir, f.Witness))
		if err != nil {
			fmt.Printf("HARNESS: cannot load witness %s: %v\n", f.Witness, err)
			return 2
		}
		ctx := &Ctx{W: w, Slot: 0, Stats: stats, Tier: cfg.Tier, cache: cache}
		vs := safeJudge(chk, ctx, sc)
		hit := false
		for _, v := range vs {
			if f.Pattern.MatchString(v.Sig) {
				hit = true
			} else if matchKnown(findings, v) == nil {
				// the witness of a known finding shows something else too
				exit = 1
				path := writeReplay(cfg.VerifDir, sc, v)
				fmt.Printf("VIOLATION property=%s replay=%s\n", chk.ID(), path)
				fmt.Printf("  %s\n", v)
			}
		}
		if hit {
			fmt.Printf("KNOWN-FINDING: property=%s %s\n", chk.ID(), f.Text)
			knownReported = append(knownReported, f.Text)
		} else {
			knownStale = append(knownStale, f.Text)
		}
	}

	// 2. exploration
	var next int64 = -1
	var mu sync.Mutex
	newFound := map[string]found{}
	knownHits := map[string]int{}
	var evaluations int64
	deadline := time.Now().Add(cfg.Budget) // the exploration budget starts after the witnesses were replayed
	var wg sync.WaitGroup
	var harnessErr atomic.Value
	for wk := 0; wk < cfg.Workers; wk++ {
		wg.Add(1)
		go func(slot int) {
			defer wg.Done()
			defer func() {
				if r := recover(); r != nil {
					if he, ok := r.(*HarnessError); ok {
						harnessErr.Store(he.Msg)
						return
					}
					panic(r)
				}
			}()
			ctx := &Ctx{W: w, Slot: slot + 1, Stats: stats, Tier: cfg.Tier, cache: cache}
			for {
				i := int(atomic.AddInt64(&next, 1))
				if cfg.MaxRuns > 0 && i >= cfg.MaxRuns {
					return
				}
				if time.Now().After(deadline) && i >= cfg.MinRuns {
					return
				}
				if harnessErr.Load() != nil {
					return
				}
				seed := Mix(cfg.Seed, chk.ID(), uint64(i))
				r := NewRand(seed)
				sc := chk.Generate(ctx, r, i)
				if sc == nil {
					continue
				}
				sc.Prop = chk.ID()
				sc.Seed = cfg.Seed
				sc.Index = i
				vs := chk.Judge(ctx, sc)
				atomic.AddInt64(&evaluations, 1)
				if i < 3 {
					stats.Sample(sampleOf(sc), 3)
				}
				for _, v := range vs {
					mu.Lock()
					if f := matchKnown(findings, v); f != nil {
						knownHits[f.Text]++
					} else if _, ok := newFound[v.Sig]; !ok && len(newFound) < cfg.MaxFound {
						newFound[v.Sig] = found{sc: sc, v: v}
						fmt.Printf("  found: run=%d %s\n", i, v)
					}
					mu.Unlock()
				}
			}
		}(wk)
	}
	wg.Wait()
	if he := harnessErr.Load(); he != nil {
		fmt.Printf("HARNESS: %v\n", he)
		return 2
	}

	// 3. minimise and report (one representative per violation class, in parallel)
	explored := time.Since(start).Seconds()
	byClass := map[string]found{}
	for _, sig := range sortedKeys(newFound) {
		fd := newFound[sig]
		key := fd.v.Oracle + "|" + fd.v.Class
		if _, ok := byClass[key]; !ok {
			byClass[key] = fd
		}
	}
	classes := sortedKeys(byClass)
	type result struct {
		sc   *Scenario
		v    Violation
		ok   bool
		orig found
	}
	results := make([]result, len(classes))
	var swg sync.WaitGroup
	for k, key := range classes {
		swg.Add(1)
		go func(k int, fd found) {
			defer swg.Done()
			defer func() {
				if r := recover(); r != nil {
					if he, ok := r.(*HarnessError); ok {
						harnessErr.Store(he.Msg)
						return
					}
					panic(r)
				}
			}()
			ctx := &Ctx{W: w, Slot: 100 + k, Stats: stats, Tier: cfg.Tier, cache: cache, Quiet: true}
			min := Shrink(chk, ctx, fd.sc, fd.v, findings, cfg.ShrinkFor)
			// the last step of minimisation is a replay in a fresh process
			res := result{sc: min, v: fd.v, orig: fd}
			for _, v := range chk.Judge(ctx, min) {
				if sameClass(v, fd.v) && matchKnown(findings, v) == nil {
					res.ok = true
					res.v = v
					break
				}
			}
			if !res.ok && fd.v.Probabilistic {
				// keep the original scenario and the captured report
				res = result{sc: fd.sc, v: fd.v, orig: fd, ok: true}
				for attempt := 0; attempt < 4; attempt++ {
					hit := false
					for _, v := range chk.Judge(ctx, fd.sc) {
						if sameClass(v, fd.v) {
							res.v = v
							hit = true
						}
					}
					if hit {
						break
					}
				}
			}
			results[k] = res
		}(k, byClass[key])
	}
	swg.Wait()
	if he := harnessErr.Load(); he != nil {
		fmt.Printf("HARNESS: %v\n", he)
		return 2
	}
	reported := map[string]bool{}
	for i := range results {
		res := &results[i]
		if nr, ok := chk.(interface{ NonReplayIsViolation() bool }); ok && !res.ok && nr.NonReplayIsViolation() {
			// for C18 an outcome that varies between executions of one scenario is the violation
			res.ok = true
			res.sc = res.orig.sc
			res.v = res.orig.v
			res.v.Msg += " || NOTE: this violation did not show again when the scenario was re-executed: the outcome varies from run to run (the simulator's own determinism is established by ./check selftest)"
			res.v.Probabilistic = true
		}
	}
	for _, res := range results {
		if !res.ok {
			fmt.Printf("HARNESS: violation %s does not replay (a source of nondeterminism escaped the simulator)\n", res.orig.v)
			path := writeReplay(cfg.VerifDir, res.orig.sc, res.orig.v)
			fmt.Printf("  unminimised scenario kept at %s\n", path)
			return 2
		}
		if reported[res.v.Sig] {
			continue
		}
		reported[res.v.Sig] = true
		path := writeReplay(cfg.VerifDir, res.sc, res.v)
		fmt.Printf("VIOLATION property=%s replay=%s\n", chk.ID(), path)
		fmt.Printf("  %s\n", res.v)
		exit = 1
	}
	sigs := sortedKeys(reported)

	// 4. evidence
	wall := time.Since(start).Seconds()
	writeEvidence(cfg, chk, stats, evidenceExtra{
		evaluations: int(evaluations), wall: wall, violations: len(sigs),
		knownReported: knownReported, knownStale: knownStale, knownHits: knownHits,
	})
	fmt.Printf("property=%s evaluations=%d processes=%d distinct_nontrivial=%d violations=%d known_hits=%d explore=%.1fs wall=%.1fs\n",
		chk.ID(), evaluations, stats.Processes, len(stats.nontriv), len(sigs), sumInts(knownHits), explored, wall)
	return exit
}

func sameClass(a, b Violation) bool {
	if a.Oracle != b.Oracle {
		return false
	}
	return a.Class == b.Class
}

func sumInts(m map[string]int) int {
	t := 0
	for _, v := range m {
		t += v
	}
	return t
}

func safeJudge(chk Check, ctx *Ctx, sc *Scenario) []Violation {
	return chk.Judge(ctx, sc)
}

func sampleOf(sc *Scenario) any {
	m := map[string]any{"index": sc.Index, "argv": sc.Argv, "plan": sc.Plan, "tmp_other_fs": sc.TmpOther}
	var files []map[string]any
	for _, f := range sc.Files {
		d := string(f.Bytes())
		if len(d) > 300 {
			d = d[:300] + "…"
		}
		files = append(files, map[string]any{"name": f.Name, "mode": fmt.Sprintf("%04o", f.Mode), "data": d, "missing": f.Missing, "dir": f.Dir})
	}
	m["files"] = files
	if sc.Lib != nil {
		m["lib"] = sc.Lib
	}
	if sc.Meta != nil {
		m["meta"] = sc.Meta
	}
	return m
}

func LoadScenario(path string) (*Scenario, error) {
	data, err := os.ReadFile(path)
	if err != nil {
		return nil, err
	}
	var wrap struct {
		Scenario *Scenario `json:"scenario"`
	}
	if err := json.Unmarshal(data, &wrap); err == nil && wrap.Scenario != nil {
		return wrap.Scenario, nil
	}
	var sc Scenario
	if err := json.Unmarshal(data, &sc); err != nil {
		return nil, err
	}
	return &sc, nil
}

func writeReplay(verifDir string, sc *Scenario, v Violation) string {
	dir := filepath.Join(verifDir, "replays")
	_ = os.MkdirAll(dir, 0755)
	name := fmt.Sprintf("%s-%s.json", v.Prop, shortHash([]byte(v.Sig)))
	path := filepath.Join(dir, name)
	data, _ := json.MarshalIndent(map[string]any{"violation": v, "scenario": sc}, "", " ")
	_ = os.WriteFile(path, data, 0644)
	return path
}

// --- evidence ------------------------------------------------------------------

type evidenceExtra struct {
	evaluations   int
	wall          float64
	violations    int
	knownReported []string
	knownStale    []string
	knownHits     map[string]int
}

func writeEvidence(cfg BatchConfig, chk Check, st *Stats, ex evidenceExtra) {
	info := chk.Describe()
	fired := map[string]int64{}
	sites := map[string]int64{}
	probes := map[string]int64{}
	other := map[string]int64{}
	st.mu.Lock()
	for k, v := range st.counters {
		switch {
		case strings.HasPrefix(k, "fired."):
			fired[strings.TrimPrefix(k, "fired.")] = v
		case strings.HasPrefix(k, "site."):
			sites[strings.TrimPrefix(k, "site.")] = v
		case strings.HasPrefix(k, "probe."):
			probes[strings.TrimPrefix(k, "probe.")] = v
		default:
			other[k] = v
		}
	}
	byGroup := map[string]int{}
	for g, m := range st.groups {
		byGroup[g] = len(m)
	}
	samples := st.samples
	distinct := len(st.distinct)
	nontriv := len(st.nontriv)
	st.mu.Unlock()
	if samples == nil {
		samples = []any{}
	}
	hours := ex.wall / 3600
	cov := map[string]any{
		"evaluations":                ex.evaluations,
		"distinct_nontrivial":        nontriv,
		"distinct_executions":        distinct,
		"distinct_by_measure":        byGroup,
		"rule":                       info.Rule,
		"samples":                    samples,
		"processes_spawned":          st.Processes,
		"simulated_steps_total":      st.Steps,
		"simulated_time_note":        "yq has no clock-dependent logic in scope; simulated time is reported as hook events (steps, reads, writes, yields), not seconds",
		"runs_per_hour":              int(float64(ex.evaluations) / maxf(hours, 1e-9)),
		"seeds_per_hour":             int(float64(ex.evaluations) / maxf(hours, 1e-9)),
		"faults_fired":               fired,
		"hook_sites_reached":         sites,
		"rare_condition_probes":      probes,
		"counters":                   other,
		"components_real":            info.Real,
		"components_stubbed":         info.Stubbed,
		"known_findings_reported":    ex.knownReported,
		"known_findings_not_showing": ex.knownStale,
		"known_finding_hits":         ex.knownHits,
		"exhaustive":                 false,
	}
	ev := map[string]any{
		"property_id": chk.ID(),
		"tier":        cfg.Tier,
		"seed":        int64(cfg.Seed & 0x7fffffffffffffff),
		"level":       chk.Level(),
		"coverage":    cov,
		"assumptions": info.Assumptions,
		"wall_s":      ex.wall,
		"violations":  ex.violations,
	}
	dir := filepath.Join(cfg.VerifDir, "evidence")
	_ = os.MkdirAll(dir, 0755)
	data, _ := json.MarshalIndent(ev, "", " ")
	if err := os.WriteFile(filepath.Join(dir, chk.ID()+".json"), data, 0644); err != nil {
		fmt.Printf("HARNESS: cannot write evidence: %v\n", err)
	}
}

func maxf(a, b float64) float64 {
	if a > b {
		return a
	}
	return b
}

func sortedInts(m map[int]bool) []int {
	var r []int
	for k := range m {
		r = append(r, k)
	}
	sort.Ints(r)
	return r
}
