module verifsim

go 1.23.0

require (
	github.com/mikefarah/yq/v4 v4.0.0
	gopkg.in/yaml.v3 v3.0.1
)

replace github.com/mikefarah/yq/v4 => /repo
