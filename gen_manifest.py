#!/usr/bin/env python3
"""Writes MANIFEST.json (kept as a script so that the per-check texts stay in one place)."""
import json, subprocess, os

NA = {
 "C01": "pure function of (expression, document): deciding it needs a reference interpreter and input generation; there is no schedule, clock, fault or history for a simulator to own",
 "C02": "algebraic laws of one assignment expression on one document: pure, nothing to schedule or to fault",
 "C03": "pure function of (selection, document)",
 "C04": "pure function of operands and flags; the N-file ireduce form is a deterministic fold of the argument list",
 "C05": "pure function of the input bytes (round trip / idempotence of one stream); the only I/O facet, independence of read chunking, is checked under C10 (O10.5) and not claimed as a decision of C05",
 "C06": "pure function of the input value",
 "C07": "pure function of (document, update)",
 "C08": "side-effect freedom inside one deterministic evaluation of one document: nothing interleaves, fails or is carried between runs (leakage across evaluations is C18)",
 "C09": "pure function of the expression text",
 "C13": "pure function of the document (alias / merge-key resolution)",
 "C14": "pure codec functions; needs independent readers and value generation, not fault or schedule search",
 "C15": "comparator laws; pure (sort.Stable, no randomness)",
 "C16": "pure function of (expression, document)",
 "C17": "pure function of a string (the shell it is fed to is deterministic)",
}

CHECKS = {
 "C18": dict(
   level="exploration",
   text="Seeded search over (a) repeated fresh-process runs of one invocation (different GOMAXPROCS, sandbox paths, PIDs; incl. a source aimed at Go map iteration order), (b) histories of 10-40 evaluations sharing parser, parsed trees, pooled decoder/encoder instances (eleven formats, two YAML decoders) and - for JSON/properties output, also NUL-separated and after a refused value - pooled printers in one process, each step compared with the same job alone in a fresh process, (c) interleavings of 2-4 concurrent evaluations under a scheduler that keeps exactly one goroutine runnable and takes every hand-off decision (operator dispatch, lexer token, parse phase, decode/print iteration, every Read/Write) from the scenario's choice list, each task compared with its solo result, and (d) the same task pools in a -race build whose goroutines walk in step (barrier at every yield point) so that unordered accesses are seen on a busy machine too (labelled: not deterministic simulation, evidence probabilistic), and (e) two real yq processes in one working directory and one TMPDIR (front matter, -i, files of one base name), the second run from start to end while the first is parked at a seeded step boundary of its own run (hook action gate on a named pipe), each compared with its run alone (O18.5). Job pools are themed (fourteen themes: operator families, codec objects with preferences of their own and from the format registry, input-less evaluations, string evaluators kept between calls, eval nested through the data). (a) also samples collection order on 64-300 entry collections. Sampling of histories and schedules: evidence, not proof.",
   ref="DESIGN.md §5.4",
   note="Trusted: pre-emption happens only at yield points (a hazard between two yields is left to the race detector); Go-runtime randomness (map order, temp names) is only sampled by repetition; time/random/env operators are excluded as the property says.",
   technique="deterministic in-process scheduler (one runnable goroutine, seeded hand-offs at yield hooks) + history replay against solo reference processes + repeated-process determinism + two-process interleaving decided at a seeded step boundary (gate hook) + Go race detector on free-running task pools",
   engine="libsim + procsim"),
 "C11": dict(
   level="exploration",
   text="Seeded runs of the real binary on documents of all ten input formats that are valid, damaged by 1-3 storage faults (truncation biased to delimiter boundaries, chopped final newline, bit flip, zeroed/duplicated/stale/inserted block), arbitrary bytes, or adversarial but legal (self-referencing anchors, self-evaluating eval, non-terminating Lua, deep nesting, Lua table graphs and sparse keys, values that mention each other in ${..} notation, huge indices, tags that disagree with the kind), delivered under seeded short-read schedules with optional read EIO, write errors (ENOSPC/EIO/EAGAIN/EINTR/EPIPE/EBADF/EFBIG), directories as input, -i with step faults, -s under descriptor exhaustion; grammar-generated, probe, token-soup and damaged (--from-file) expressions; every output format and file extension. Oracles: exit in {0,1}, no panic/fatal/goroutine dump/foreign signal, termination within a hook-counted step budget (reader polled after its end; wall-clock backstop with isolated re-run), exit 1 implies a message. The healthy-input x arbitrary-expression clause is only reached by the fault-free configuration and is not claimed as decided. Sampling: evidence, not proof.",
   ref="DESIGN.md §5.2",
   note="Trusted: panic detection by exit status and goroutine dump on stderr; the step budget counts hook events (operator dispatches, reads, writes); RLIMIT_AS 4 GiB is a guard, not a fault.",
   technique="deterministic process-level storage-fault simulation: seeded byte damage, short reads, read/write errors against the real binary, crash and bounded-liveness (step budget) oracles, known findings keyed by panic class + function",
   engine="procsim"),
 "C19": dict(
   level="exploration",
   text="Seeded multi-file/multi-document runs of the real binary in eighteen variants: read EIO at a byte of an input or of the front-matter stream, write ENOSPC/EIO/EAGAIN/... with partial write at a byte of stdout (also outputs larger than one buffer, colours) and the real /dev/full, unopenable input at an argument position (missing, directory, errno), decode/evaluation failure generated at document (i,j), a malformed record per an independent reader of the format (csv, tsv, json, toml, lua, xml, base64, uri), a failure on a non-last element inside 28 operator contexts, inputs without any document, split output (-s) incl. failing split expressions and stale output files, the root command (flags only, input on stdin, also a producer that stays silent for a while), impossible invocations, completeness of exit-0 runs against per-document references, -e, -n in every spelling, format auto-detection (also stdin first) and --from-file equivalence; fault positions are drawn inside the ranges observed in a fault-free traced pre-run. The encoder-domain and -0 clauses run as the fault-free configuration and are not claimed to be decided by simulation. Sampling: evidence, not proof.",
   ref="DESIGN.md §5.5",
   note="Trusted: the reader/writer wrappers sit directly below yq's bufio layers; the prefix rule (bytes already written are a prefix of the fault-free output); -e judged on the -o=json -I0 rendering parsed by the driver.",
   technique="deterministic process-level fault simulation of the command layer: seeded read/write/open faults by position in a multi-file run, generated decode/eval failures, exit-status/stderr/stdout-prefix oracles against fault-free reference processes",
   engine="procsim"),
 "C10": dict(
   level="exploration",
   text="Seeded histories of 1-4 files x 0-3 documents (all YAML layout classes, JSON streams, one-document formats incl. base64/uri/Lua-globals in multi-file sequences, stdin, named pipes, a file loaded by every document) are processed by one real yq process under a seeded short-read schedule and compared with the join of fresh single-document reference processes for nine output formats (O10.1/O10.2), with id conservation/order (O10.3), ground-truth provenance in eval and eval-all mode (O10.4), schedule transparency (O10.5), eval-all vs eval on total expressions (O10.6), identity document count by an independent splitter (O10.7) and split output files against the per-document runs (O10.8); also documents nested deeper than 100 levels and a stream of more than 65536 documents with a closed-form oracle. Sampling of histories and schedules: evidence, not proof.",
   ref="DESIGN.md §5.1",
   note="Trusted: yq on one document in a fresh process is the reference (a defect identical in the single-document run is out of scope); the join model of `---`; gopkg.in/yaml.v3 as independent document splitter; read-chunk delivery is stubbed below bufio.",
   technique="deterministic process-level simulation of input histories and read schedules against single-document reference runs (refinement of the one-document behaviour), shrinking to a replayable scenario",
   engine="procsim"),
 "C12": dict(
   level="fault_enumeration",
   text="Per sampled (expression, file, flags, TMPDIR placement, link situation) scenario the finite set of step boundaries of the in-place protocol - incl. the sibling-temp fallback and the last-resort in-place overwrite - is decided completely by the snapshot invariant (target is OLD or NEW at every hook event, OLD never after NEW); errno/kill/partial-write/failed-close/read-error faults drawn inside the observed step and byte ranges, a runtime failure (panic) injected at a yield point so that yq's deferred finalisers run while it unwinds, the real EXDEV, a real volume without room for a second copy (tmpfs per run), standard output as a character device (what yq takes for a terminal), and syscall-level faults by strace (rename, fsync, write, close, unlink, chmod, chown) are executed in fresh processes of the real binary and judged by exit-status/content/mode (O12.1/O12.2), front-matter appendix (O12.4) and frame (O12.5: nothing but the target changes; symbolic and hard links) oracles. Scenarios are sampled, fault points per scenario are enumerated: evidence, not proof.",
   ref="DESIGN.md §5.3",
   note="Trusted: the verifhook step points sit immediately before the calls they name; a killed process keeps what it handed to the kernel (no power-loss model); NEW is the fault-free stdout of the same command without -i; synthesised errnos are routed only into the real call's own error branch.",
   technique="deterministic process-level fault simulation: seeded fault plans (errno / SIGKILL / short+failed writes / failed close / EXDEV) executed by hooks inside the real yq binary, snapshot invariant over the recorded trace, shrinking to a replayable scenario",
   engine="procsim"),
}

def main():
    here = os.path.dirname(os.path.abspath(__file__))
    hooks = subprocess.run(["git", "-C", "/repo", "log", "--format=%H %s"], capture_output=True, text=True).stdout.splitlines()
    hook_commits = [l.split()[0] for l in hooks if l.split(" ", 1)[1].startswith("verif hooks")]
    checks = []
    for pid in sorted(CHECKS):
        c = CHECKS[pid]
        checks.append({
            "property_id": pid,
            "quick_cmd": f"./check {pid} quick",
            "thorough_cmd": f"./check {pid} thorough",
            "evidence_file": f"/verif/evidence/{pid}.json",
            "replay_cmd_template": "./check replay {path}",
            "engine": c["engine"],
            "level_claimed": {"category": c["level"], "text": c["text"], "design_ref": c["ref"]},
            "level_note": c["note"],
            "technique": c["technique"],
        })
    m = {
        "version": 1,
        "setup_cmd": "./check build",
        "hooks": {
            "guard": "verif (Go build tag)",
            "enable": "go build -tags verif (done by ./check on every run, from /repo's current working tree)",
            "baseline_off_cmd": "cd /repo && GOFLAGS=-mod=mod GOPROXY=off GOSUMDB=off go test -vet=off -count=1 -json ./...",
            "source_commits": hook_commits,
            "add_only": True,
        },
        "engines": [
            {"name": "procsim", "path": "/verif/sim/internal/sim/procsim.go", "serves_properties": ["C10", "C11", "C12", "C18", "C19"],
             "kind_free_text": "process-level deterministic fault simulation: the real yq binary (tag verif) in a fresh process and sandbox per run, fault plan consumed by pkg/verifhook, trace with target snapshots, real SIGKILL / EXDEV"},
            {"name": "libsim", "path": "/verif/sim/cmd/libsim", "serves_properties": ["C18"],
             "kind_free_text": "in-process seeded scheduler over yqlib: one goroutine runnable at a time, hand-off at verifhook.Yield and at the task's own Read/Write; plus a free-running -race build for the data-race clause"},
        ],
        "checks": checks,
        "not_applicable": [{"property_id": k, "reason": v} for k, v in sorted(NA.items())] +
            [{"property_id": k, "reason": "claimed by design (DESIGN.md §5) but its check is not registered yet in this commit"} for k in ["C10", "C11", "C18", "C19"] if k not in CHECKS],
        "notes": "All checks: ./check <id> quick|thorough; exit 0 held (KNOWN-FINDING lines allowed), 1 VIOLATION, 2 build/harness trouble. VERIF_SEED selects the batch; VERIF_BUDGET_S overrides the exploration time. Known findings: /verif/known_findings.txt.",
    }
    json.dump(m, open(os.path.join(here, "MANIFEST.json"), "w"), indent=1)
    print("wrote MANIFEST.json with", len(checks), "checks")

main()
